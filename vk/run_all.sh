#!/bin/sh
# Runs every registered check (tier $1 = quick|thorough) on the current /repo, sequentially; summary on stdout.
tier=${1:-quick}
cd "$(dirname "$0")/.."
for p in C01 C02 C03 C04 C05 C06 C07 C08 C09 C10 C11 C12 C13 C14 C15 C16 C17 C18 C19; do
  s=$(date +%s)
  ./check $p --tier $tier > /tmp/all_${tier}_$p.log 2>&1
  rc=$?
  echo "$p $tier exit=$rc $(( $(date +%s) - s ))s"
done
