#!/usr/bin/env python3
"""A small symbolic executor for rustc MIR (text form, -Zunpretty=mir) over z3 terms.

Used where Kani cannot reach the code: functions whose only obstacle is a hash map (hashbrown's SIMD group scan is not
resolvable under CBMC). The crate's own MIR is executed statement by statement; integer operations become bit-vector
terms of the source width; calls into the crate are executed from their MIR as well; calls into std / dependencies are
replaced by the small contract models in `MODELS` (each one is part of the claim and is listed in the evidence).
Anything the executor does not understand raises Unsupported -> the check is INCONCLUSIVE, never "held".

Run with the tooling venv's python (python3-vt): needs the z3 module.
"""
import re, sys, json, itertools, time
import z3


class Unsupported(Exception):
    pass


# ----------------------------------------------------------------------------------------------- MIR parsing

class Fn:
    def __init__(self, name, params, ret, locals_, blocks, text):
        self.name, self.params, self.ret, self.locals, self.blocks, self.text = name, params, ret, locals_, blocks, text


def split_top(s, sep=","):
    out, depth, cur = [], 0, ""
    i = 0
    while i < len(s):
        c = s[i]
        if c in "([{<" and not (c == "<" and s[i - 1:i] == " "):
            depth += 1
        elif c in ")]}" or (c == ">" and s[i - 1:i] != "-" and s[i - 1:i] != "="):
            depth -= 1
        if c == sep and depth == 0:
            out.append(cur.strip())
            cur = ""
        else:
            cur += c
        i += 1
    if cur.strip():
        out.append(cur.strip())
    return out


def parse_mir(text):
    fns = {}
    ctfe = False
    lines = text.splitlines()
    i = 0
    while i < len(lines):
        l = lines[i]
        if l.startswith("// MIR FOR CTFE"):
            ctfe = True
        m = re.match(r"^fn (.+?)\((.*)\) -> (.+?) \{$", l) or re.match(r"^fn (.+?)\((.*)\)() \{$", l)
        if m and not l.startswith("    "):
            j = i + 1
            while j < len(lines) and lines[j] != "}":
                j += 1
            body = lines[i:j + 1]
            if not ctfe:
                name = m.group(1)
                params = []
                for p in split_top(m.group(2)):
                    pm = re.match(r"_(\d+): (.*)$", p)
                    if pm:
                        params.append((int(pm.group(1)), pm.group(2)))
                locals_ = {n: t for n, t in params}
                blocks, cur = {}, None
                for b in body[1:]:
                    lm = re.match(r"^\s+let (?:mut )?_(\d+): (.*);$", b)
                    if lm:
                        locals_[int(lm.group(1))] = lm.group(2)
                        continue
                    bm = re.match(r"^    bb(\d+)( \(cleanup\))?: \{$", b)
                    if bm:
                        cur = int(bm.group(1))
                        blocks[cur] = []
                        continue
                    if cur is not None:
                        s = b.strip()
                        if s == "}":
                            cur = None
                        elif s:
                            blocks[cur].append(s)
                locals_[0] = m.group(3) or "()"
                fns[name] = Fn(name, params, m.group(3) or "()", locals_, blocks, "\n".join(body))
            ctfe = False
            i = j
        i += 1
    return fns


def parse_structs(src_texts):
    """struct name -> [field names] in declaration order (= MIR field indices)."""
    out = {}
    for t in src_texts:
        t = re.sub(r"//[^\n]*", "", t)
        for m in re.finditer(r"struct\s+(\w+)(?:<[^>{]*>)?\s*\{([^}]*)\}", t):
            fields = []
            for f in split_top(m.group(2)):
                f = re.sub(r"#\[[^\]]*\]", "", f).strip()
                fm = re.match(r"(?:pub(?:\([^)]*\))?\s+)?(\w+)\s*:", f)
                if fm:
                    fields.append(fm.group(1))
            out[m.group(1)] = fields
    return out


# ----------------------------------------------------------------------------------------------- values

INT_W = dict(u8=8, u16=16, u32=32, u64=64, u128=128, usize=64, i8=8, i16=16, i32=32, i64=64, i128=128, isize=64)


class Int:
    def __init__(self, bv, signed):
        self.bv, self.signed = bv, signed

    @property
    def w(self):
        return self.bv.size()


class Struct:
    def __init__(self, name, fields):
        self.name, self.fields = name, list(fields)


class Opt:
    def __init__(self, some, val):
        self.some, self.val = some, val  # some: z3 Bool


class Ref:
    def __init__(self, cell, path=()):
        self.cell, self.path = cell, tuple(path)


class SMap:
    """total model of a HashMap<u32, u8>: presence and value arrays"""
    def __init__(self, present, vals):
        self.present, self.vals = present, vals


class Entries:
    """the palette's map as an abstract iterable: (key, value) pairs with pairwise distinct keys, in iteration order"""
    def __init__(self, items):
        self.items = items


class Iter:
    def __init__(self, items, pos):
        self.items, self.pos = items, pos


class Image:
    def __init__(self, w, h, pixels):
        self.w, self.h, self.pixels = w, h, pixels


class MapIter:
    def __init__(self, it, closure):
        self.it, self.closure = it, closure


class VecV:
    def __init__(self, items):
        self.items = items


UNIT = Struct("()", [])


def mk_int(v, ty):
    return Int(z3.BitVecVal(v, INT_W[ty]), ty.startswith("i"))


def is_true(b):
    return z3.is_true(z3.simplify(b))


def is_false(b):
    return z3.is_false(z3.simplify(b))


def get_path(v, path):
    variant = False
    for p in path:
        if variant:
            # field 0 of the Some variant is the payload itself
            variant = False
            if p != 0:
                raise Unsupported("variant field %r" % (p,))
            continue
        if isinstance(p, tuple) and p[0] == "some":
            if not isinstance(v, Opt):
                raise Unsupported("downcast of %s" % type(v).__name__)
            v = v.val
            variant = True
        elif isinstance(v, Struct):
            v = v.fields[p]
        elif isinstance(v, list):
            v = v[p]
        else:
            raise Unsupported("projection %r on %r" % (p, type(v).__name__))
    return v


def set_path(v, path, new):
    if not path:
        return new
    p = path[0]
    if isinstance(v, Struct):
        f = list(v.fields)
        f[p] = set_path(f[p], path[1:], new)
        return Struct(v.name, f)
    if isinstance(v, list):
        f = list(v)
        f[p] = set_path(f[p], path[1:], new)
        return f
    raise Unsupported("write through projection %r on %r" % (p, type(v).__name__))


# ----------------------------------------------------------------------------------------------- executor

class State:
    def __init__(self, heap, pc):
        self.heap, self.pc = heap, pc

    def fork(self, extra):
        return State(dict(self.heap), self.pc + [extra])


class Exec:
    def __init__(self, fns, structs):
        self.fns, self.structs = fns, structs
        self.next_cell = itertools.count(1)
        self.obligations = []  # (pc list, cond, message): MIR assert terminators (panics)
        self.used_fns, self.used_models = set(), set()
        self.steps = 0

    # --- places / operands
    def parse_place(self, s, frame, st):
        """returns (cell, path) for a place expression"""
        s = s.strip()
        m = re.fullmatch(r"_(\d+)", s)
        if m:
            return (frame, int(m.group(1))), ()
        if s.startswith("(*") and s.endswith(")") and self._balanced(s[1:-1]):
            r = self.read_place(s[2:-1], frame, st)
            if not isinstance(r, Ref):
                raise Unsupported("deref of non-reference in %s" % s)
            return r.cell, r.path
        m = re.fullmatch(r"(.*)\[_(\d+)\]", s)
        if m and self._balanced(m.group(1)):
            idx = self.read_place("_" + m.group(2), frame, st)
            iv = z3.simplify(idx.bv)
            if not z3.is_bv_value(iv):
                raise Unsupported("symbolic array index in %s" % s)
            c, p = self.parse_place(m.group(1), frame, st)
            return c, p + (iv.as_long(),)
        m = re.fullmatch(r"(.*)\[(\d+) of \d+\]", s)
        if m and self._balanced(m.group(1)):
            c, p = self.parse_place(m.group(1), frame, st)
            return c, p + (int(m.group(2)),)
        if s.startswith("(") and s.endswith(")") and self._balanced(s[1:-1]):
            inner = s[1:-1]
            # (place as Variant)
            mm = re.fullmatch(r"(.*) as (\w+)", inner)
            if mm and self._balanced(mm.group(1)) and ":" not in self._top(inner):
                c, p = self.parse_place(mm.group(1), frame, st)
                if mm.group(2) != "Some":
                    raise Unsupported("downcast to %s" % mm.group(2))
                return c, p + (("some",),)
            # (place.N: type)
            k = self._field_split(inner)
            if k:
                base, n = k
                c, p = self.parse_place(base, frame, st)
                return c, p + (n,)
        raise Unsupported("place syntax: " + s)

    @staticmethod
    def _balanced(s):
        d = 0
        for ch in s:
            if ch in "([":
                d += 1
            elif ch in ")]":
                d -= 1
                if d < 0:
                    return False
        return d == 0

    @staticmethod
    def _top(s):
        out, d = "", 0
        for ch in s:
            if ch in "([":
                d += 1
            elif ch in ")]":
                d -= 1
            elif d == 0:
                out += ch
        return out

    def _field_split(self, inner):
        # find ".N: " at paren depth 0, scanning from the left for the first such occurrence after a balanced base
        d = 0
        for i, ch in enumerate(inner):
            if ch in "([":
                d += 1
            elif ch in ")]":
                d -= 1
            elif ch == "." and d == 0:
                m = re.match(r"\.(\d+): ", inner[i:])
                if m and self._balanced(inner[:i]):
                    return inner[:i], int(m.group(1))
        return None

    def read_place(self, s, frame, st):
        c, p = self.parse_place(s, frame, st)
        if c not in st.heap:
            raise Unsupported("read of uninitialised place %s" % s)
        return get_path(st.heap[c], p)

    def write_place(self, s, frame, st, v):
        c, p = self.parse_place(s, frame, st)
        if p:
            if c not in st.heap:
                raise Unsupported("field write to uninitialised %s" % s)
            st.heap[c] = set_path(st.heap[c], p, v)
        else:
            st.heap[c] = v

    def operand(self, s, frame, st):
        s = s.strip()
        s = re.sub(r"^no_retag ", "", s)
        if s.startswith("copy ") or s.startswith("move "):
            return self.read_place(s[5:], frame, st)
        if s.startswith("const "):
            c = s[6:].strip()
            if c in ("true", "false"):
                return z3.BoolVal(c == "true")
            m = re.fullmatch(r"(-?\d+)_(\w+)", c)
            if m and m.group(2) in INT_W:
                return mk_int(int(m.group(1)), m.group(2))
            m = re.fullmatch(r"(\w+)::(MAX|MIN)", c)
            if m and m.group(1) in INT_W:
                w, sg = INT_W[m.group(1)], m.group(1).startswith("i")
                v = ((1 << (w - 1)) - 1 if sg else (1 << w) - 1) if m.group(2) == "MAX" else (-(1 << (w - 1)) if sg else 0)
                return mk_int(v, m.group(1))
            if c == "()":
                return UNIT
            raise Unsupported("constant: " + c)
        raise Unsupported("operand: " + s)

    # --- rvalues
    def rvalue(self, s, frame, st, fn):
        s = s.strip()
        m = re.fullmatch(r"(&(?:mut |raw const |raw mut )?)(.*)", s)
        if m and not s.startswith("&&"):
            c, p = self.parse_place(m.group(2), frame, st)
            return Ref(c, p)
        m = re.fullmatch(r"discriminant\((.*)\)", s)
        if m:
            v = self.read_place(m.group(1), frame, st)
            if isinstance(v, Opt):
                return Int(z3.If(v.some, z3.BitVecVal(1, 64), z3.BitVecVal(0, 64)), True)
            raise Unsupported("discriminant of %s" % type(v).__name__)
        m = re.fullmatch(r"(.*) as (\w+) \(IntToInt\)", s)
        if m:
            v = self.operand(m.group(1), frame, st)
            if isinstance(v, z3.BoolRef):
                v = Int(z3.If(v, z3.BitVecVal(1, 8), z3.BitVecVal(0, 8)), False)
            ty = m.group(2)
            w = INT_W[ty]
            if w < v.w:
                bv = z3.Extract(w - 1, 0, v.bv)
            elif w > v.w:
                bv = z3.SignExt(w - v.w, v.bv) if v.signed else z3.ZeroExt(w - v.w, v.bv)
            else:
                bv = v.bv
            return Int(bv, ty.startswith("i"))
        m = re.fullmatch(r"(\w+)\((.*)\)", s)
        if m and m.group(1) in BINOPS | {"Not", "Neg"}:
            args = [self.operand(a, frame, st) for a in split_top(m.group(2))]
            return self.binop(m.group(1), args)
        if s.startswith("!"):
            v = self.operand(s[1:], frame, st)
            return z3.Not(v) if isinstance(v, z3.BoolRef) else Int(~v.bv, v.signed)
        # aggregates
        m = re.fullmatch(r"\((.*)\)", s)
        if m and self._balanced(m.group(1)) and not s.startswith("(*") and self._field_split(m.group(1)) is None:
            parts = split_top(m.group(1))
            if all(re.match(r"(copy|move|const) ", p) for p in parts):
                return Struct("tuple", [self.operand(p, frame, st) for p in parts])
        m = re.fullmatch(r"\[(.*)\]", s)
        if m:
            parts = split_top(m.group(1))
            if all(re.match(r"(copy|move|const) ", p) for p in parts):
                return [self.operand(p, frame, st) for p in parts]
        m = re.fullmatch(r"Option::<.*>::Some\((.*)\)", s)
        if m and self._balanced(m.group(1)):
            return Opt(z3.BoolVal(True), self.operand(m.group(1), frame, st))
        if re.fullmatch(r"Option::<.*>::None", s):
            return Opt(z3.BoolVal(False), None)
        m = re.fullmatch(r"(\{closure@[^}]*\}|[\w:<>, ]+?) \{ (.*) \}", s)
        if m:
            name = re.sub(r"::<[^{}]*>$", "", m.group(1).strip()).split("::")[-1].split("<")[0].strip()
            kv = {}
            for part in split_top(m.group(2)):
                k, v = part.split(": ", 1)
                kv[k.strip()] = self.operand(v, frame, st)
            if name.startswith("{closure"):
                return Struct("closure", list(kv.values()))
            order = self.structs.get(name) or BUILTIN_STRUCTS.get(name)
            if order is None or set(order) != set(kv):
                raise Unsupported("aggregate of unknown struct %s" % name)
            return Struct(name, [kv[f] for f in order])
        if re.match(r"(copy|move|const|no_retag) ", s):
            return self.operand(s, frame, st)
        raise Unsupported("rvalue: " + s)

    def binop(self, op, a):
        if op == "Not":
            v = a[0]
            return z3.Not(v) if isinstance(v, z3.BoolRef) else Int(~v.bv, v.signed)
        x, y = a
        if isinstance(x, z3.BoolRef):
            if op == "Eq":
                return x == y
            if op == "Ne":
                return x != y
            if op == "BitAnd":
                return z3.And(x, y)
            if op == "BitOr":
                return z3.Or(x, y)
            if op == "BitXor":
                return z3.Xor(x, y)
            raise Unsupported("bool op " + op)
        sg = x.signed
        if op in ("Shl", "Shr", "ShlUnchecked", "ShrUnchecked"):
            yb = y.bv
            if yb.size() < x.w:
                yb = z3.ZeroExt(x.w - yb.size(), yb)
            elif yb.size() > x.w:
                yb = z3.Extract(x.w - 1, 0, yb)
            yb = yb & z3.BitVecVal(x.w - 1, x.w)  # rustc masks the amount after its own overflow assert
            if op.startswith("Shl"):
                return Int(x.bv << yb, sg)
            return Int((x.bv >> yb) if sg else z3.LShR(x.bv, yb), sg)
        if x.w != y.w:
            raise Unsupported("operand widths differ in " + op)
        xb, yb = x.bv, y.bv
        if op in ("Add", "AddUnchecked"):
            return Int(xb + yb, sg)
        if op in ("Sub", "SubUnchecked"):
            return Int(xb - yb, sg)
        if op in ("Mul", "MulUnchecked"):
            return Int(xb * yb, sg)
        if op == "BitAnd":
            return Int(xb & yb, sg)
        if op == "BitOr":
            return Int(xb | yb, sg)
        if op == "BitXor":
            return Int(xb ^ yb, sg)
        if op == "Eq":
            return xb == yb
        if op == "Ne":
            return xb != yb
        if op == "Lt":
            return (xb < yb) if sg else z3.ULT(xb, yb)
        if op == "Le":
            return (xb <= yb) if sg else z3.ULE(xb, yb)
        if op == "Gt":
            return (xb > yb) if sg else z3.UGT(xb, yb)
        if op == "Ge":
            return (xb >= yb) if sg else z3.UGE(xb, yb)
        if op in ("AddWithOverflow", "SubWithOverflow", "MulWithOverflow"):
            w = x.w
            ext = (lambda v: z3.SignExt(w, v)) if sg else (lambda v: z3.ZeroExt(w, v))
            wide = {"A": ext(xb) + ext(yb), "S": ext(xb) - ext(yb), "M": ext(xb) * ext(yb)}[op[0]]
            res = z3.Extract(w - 1, 0, wide)
            ov = ext(res) != wide
            return Struct("tuple", [Int(res, sg), ov])
        if op in ("Div", "Rem"):
            if op == "Div":
                return Int((xb / yb) if sg else z3.UDiv(xb, yb), sg)
            return Int(z3.SRem(xb, yb) if sg else z3.URem(xb, yb), sg)
        raise Unsupported("binop " + op)

    # --- calls
    def resolve(self, callee):
        """a crate function named like the callee (Type::method / path::function) -> MIR Fn or None"""
        c = re.sub(r"::<[^()]*>$", "", callee.strip())
        if c in self.fns:
            return self.fns[c]
        m = re.fullmatch(r"(?:.*::)?(\w+)::(\w+)", c)
        cands = []
        if m:
            ty, meth = m.group(1), m.group(2)
            for n, f in self.fns.items():
                if n.endswith(">::" + meth) and f.params and re.search(r"\b%s\b" % re.escape(ty), f.params[0][1] + " " + f.ret + " " + n):
                    cands.append(f)
        if len(cands) == 1:
            return cands[0]
        return None

    def call(self, callee, args, st, depth):
        """returns list of (state, value)"""
        f = self.resolve(callee)
        if f is not None:
            return self.run(f, args, st, depth + 1)
        m = re.fullmatch(r"<(\w+) as From<(\w+)>>::from|<(\w+) as Into<(\w+)>>::into", callee.strip())
        if m:
            dst_t, src_t = (m.group(1), m.group(2)) if m.group(1) else (m.group(4), m.group(3))
            if dst_t in INT_W and src_t in INT_W and INT_W[dst_t] >= INT_W[src_t] and isinstance(args[0], Int):
                self.used_models.add("int_from: lossless integer From/Into: zero / sign extension")
                v, w = args[0], INT_W[dst_t]
                bvx = v.bv if w == v.w else (z3.SignExt(w - v.w, v.bv) if v.signed else z3.ZeroExt(w - v.w, v.bv))
                return [(st, Int(bvx, dst_t.startswith("i")))]
        for rx, model in MODELS:
            if re.fullmatch(rx, callee):
                self.used_models.add(model.__name__ + ": " + (model.__doc__ or "").strip())
                return model(self, args, st, depth)
        raise Unsupported("call to a function with no MIR in the crate and no model: " + callee)

    def run(self, fn, args, st0, depth=0):
        if depth > 12:
            raise Unsupported("call depth")
        self.used_fns.add(fn.name)
        frame = next(self.next_cell)
        st0 = State(dict(st0.heap), list(st0.pc))
        for (n, _t), a in zip(fn.params, args):
            st0.heap[(frame, n)] = a
        results = []
        work = [(0, st0)]
        while work:
            bb, st = work.pop()
            stmts = fn.blocks[bb]
            for s in stmts[:-1]:
                self.steps += 1
                self.statement(s, frame, st, fn)
            term = stmts[-1]
            self.steps += 1
            if self.steps > 200000:
                raise Unsupported("step budget")
            t = term.rstrip(";")
            if t == "return":
                results.append((st, st.heap.get((frame, 0), UNIT)))
                continue
            if t == "unreachable":
                self.obligations.append((list(st.pc), z3.BoolVal(False), "unreachable reached in " + fn.name))
                continue
            m = re.fullmatch(r"goto -> bb(\d+)", t)
            if m:
                work.append((int(m.group(1)), st))
                continue
            m = re.fullmatch(r"drop\(.*\) -> \[return: bb(\d+).*\]", t)
            if m:
                work.append((int(m.group(1)), st))
                continue
            m = re.fullmatch(r"switchInt\((.*)\) -> \[(.*)\]", t)
            if m:
                v = self.operand(m.group(1), frame, st)
                if isinstance(v, z3.BoolRef):
                    v = Int(z3.If(v, z3.BitVecVal(1, 8), z3.BitVecVal(0, 8)), False)
                seen = []
                for arm in split_top(m.group(2)):
                    k, tgt = arm.split(": bb")
                    tgt = int(tgt)
                    if k.strip() == "otherwise":
                        cond = z3.And([v.bv != c for c in seen]) if seen else z3.BoolVal(True)
                    else:
                        cv = z3.BitVecVal(int(k), v.w)
                        seen.append(cv)
                        cond = v.bv == cv
                    if is_false(cond) or self.infeasible(st.pc + [cond]):
                        continue
                    work.append((tgt, st.fork(cond)))
                continue
            m = re.fullmatch(r"assert\((.*?), \".*\) -> \[success: bb(\d+).*\]", t)
            if m:
                c = self.rvalue(m.group(1), frame, st, fn)
                if not is_true(c):
                    self.obligations.append((list(st.pc), c, "%s: %s" % (fn.name, t[:110])))
                    st = st.fork(c)
                work.append((int(m.group(2)), st))
                continue
            m = re.fullmatch(r"(?:(.+?) = )?(.+?)\((.*)\) -> \[return: bb(\d+).*\]", t)
            if m:
                dest, callee, argstr, ret = m.group(1), m.group(2), m.group(3), int(m.group(4))
                avals = [self.operand(a, frame, st) for a in split_top(argstr)]
                for st2, val in self.call(callee, avals, st, depth):
                    st3 = State(dict(st2.heap), list(st2.pc))
                    if dest:
                        self.write_place(dest, frame, st3, val)
                    work.append((ret, st3))
                continue
            raise Unsupported("terminator: " + t)
        return results

    def infeasible(self, pc):
        s = z3.Solver()
        s.set("timeout", 20000)
        s.add(*pc)
        return s.check() == z3.unsat

    def statement(self, s, frame, st, fn):
        s = s.rstrip(";")
        if re.match(r"(StorageLive|StorageDead|nop|FakeRead|PlaceMention|AscribeUserType|Retag|Coverage|ConstEvalCounter)\b", s) or s.startswith("//"):
            return
        m = re.fullmatch(r"(.+?) = (.*)", s)
        if not m:
            raise Unsupported("statement: " + s)
        v = self.rvalue(m.group(2), frame, st, fn)
        self.write_place(m.group(1), frame, st, v)


BUILTIN_STRUCTS = {"Range": ["start", "end"]}
BINOPS = {"Add", "Sub", "Mul", "Div", "Rem", "BitAnd", "BitOr", "BitXor", "Shl", "Shr", "Eq", "Ne", "Lt", "Le", "Gt", "Ge",
          "AddWithOverflow", "SubWithOverflow", "MulWithOverflow", "AddUnchecked", "SubUnchecked", "MulUnchecked",
          "ShlUnchecked", "ShrUnchecked"}


# ----------------------------------------------------------------------------------------------- contract models (std / deps)

def deref(ex, st, r):
    return get_path(st.heap[r.cell], r.path)


def m_map_default(ex, args, st, depth):
    """HashMap::default(): the empty map (no key present)"""
    return [(st, SMap(z3.K(z3.BitVecSort(32), z3.BoolVal(False)), z3.K(z3.BitVecSort(32), z3.BitVecVal(0, 8))))]


def m_map_iter(ex, args, st, depth):
    """HashMap::iter(): visits every (key, value) pair exactly once, in an arbitrary order (the order of the symbolic entry list)"""
    m = deref(ex, st, args[0])
    if not isinstance(m, Entries):
        raise Unsupported("iter() over a map that is not the input palette")
    return [(st, Iter(m.items, 0))]


def m_identity(ex, args, st, depth):
    """IntoIterator::into_iter on an iterator / From on the same type: identity"""
    return [(st, args[0])]


def m_iter_next(ex, args, st, depth):
    """Iterator::next(): the next pair (as references) or None after the last one"""
    it = deref(ex, st, args[0])
    st = State(dict(st.heap), list(st.pc))
    if isinstance(it, Iter):
        if it.pos < len(it.items):
            k, v = it.items[it.pos]
            ck, cv = ("tmp", next(ex.next_cell)), ("tmp", next(ex.next_cell))
            st.heap[ck], st.heap[cv] = k, v
            st.heap[args[0].cell] = set_path(st.heap[args[0].cell], args[0].path, Iter(it.items, it.pos + 1))
            if k is None:  # an iterator over single items (pixels)
                return [(st, Opt(z3.BoolVal(True), Ref(cv)))]
            return [(st, Opt(z3.BoolVal(True), Struct("tuple", [Ref(ck), Ref(cv)])))]
        return [(st, Opt(z3.BoolVal(False), None))]
    raise Unsupported("next() on " + type(it).__name__)


def m_map_insert(ex, args, st, depth):
    """HashMap::insert(k, v): afterwards k is present with value v, every other key is unchanged; returns the previous value"""
    m = deref(ex, st, args[0])
    if not isinstance(m, SMap):
        raise Unsupported("insert into a map that is not modelled")
    k, v = args[1], args[2]
    st = State(dict(st.heap), list(st.pc))
    old = Opt(z3.Select(m.present, k.bv), Int(z3.Select(m.vals, k.bv), False))
    new = SMap(z3.Store(m.present, k.bv, z3.BoolVal(True)), z3.Store(m.vals, k.bv, v.bv))
    st.heap[args[0].cell] = set_path(st.heap[args[0].cell], args[0].path, new)
    return [(st, old)]


def m_map_get(ex, args, st, depth):
    """HashMap::get(&k): Some(&value) iff k is present"""
    m = deref(ex, st, args[0])
    if not isinstance(m, SMap):
        raise Unsupported("get on a map that is not modelled")
    k = deref(ex, st, args[1]) if isinstance(args[1], Ref) else args[1]
    st = State(dict(st.heap), list(st.pc))
    c = ("tmp", next(ex.next_cell))
    st.heap[c] = Int(z3.Select(m.vals, k.bv), False)
    return [(st, Opt(z3.Select(m.present, k.bv), Ref(c)))]


def m_unwrap_or(ex, args, st, depth):
    """Option::unwrap_or(d): the payload if Some, else d"""
    o, d = args
    if is_true(o.some):
        return [(st, o.val)]
    if is_false(o.some):
        return [(st, d)]
    if isinstance(d, Ref):
        a, b = deref(ex, st, o.val), deref(ex, st, d)
        st = State(dict(st.heap), list(st.pc))
        c = ("tmp", next(ex.next_cell))
        st.heap[c] = Int(z3.If(o.some, a.bv, b.bv), a.signed)
        return [(st, Ref(c))]
    return [(st, Int(z3.If(o.some, o.val.bv, d.bv), d.signed))]


def m_entries_len(ex, args, st, depth):
    """HashMap::len() of the input palette: the number of (pairwise distinct) entries"""
    m = deref(ex, st, args[0])
    if not isinstance(m, Entries):
        raise Unsupported("len() of a map that is not the input palette")
    return [(st, Int(z3.BitVecVal(len(m.items), 64), False))]


def m_entries_get(ex, args, st, depth):
    """HashMap::get(&k) on the input palette: Some(&entry) for the entry whose key equals k, None if no key does"""
    m = deref(ex, st, args[0])
    if not isinstance(m, Entries):
        raise Unsupported("get() on a map that is not the input palette")
    k = deref(ex, st, args[1]) if isinstance(args[1], Ref) else args[1]
    out = []
    for key, ent in m.items:
        c = key.bv == k.bv
        if is_false(c) or ex.infeasible(st.pc + [c]):
            continue
        s2 = st.fork(c)
        cell = ("tmp", next(ex.next_cell))
        s2.heap[cell] = ent
        out.append((s2, Opt(z3.BoolVal(True), Ref(cell))))
    none = z3.And([key.bv != k.bv for key, _e in m.items] + [z3.BoolVal(True)])
    if not ex.infeasible(st.pc + [none]):
        out.append((st.fork(none), Opt(z3.BoolVal(False), None)))
    return out


def m_range_next(ex, args, st, depth):
    """Range::next(): start if start < end (then start += 1), else None"""
    r = deref(ex, st, args[0])
    lo, hi = r.fields
    c = z3.ULT(lo.bv, hi.bv) if not lo.signed else (lo.bv < hi.bv)
    out = []
    if not is_false(c) and not ex.infeasible(st.pc + [c]):
        s2 = st.fork(c)
        s2.heap[args[0].cell] = set_path(s2.heap[args[0].cell], args[0].path, Struct("Range", [Int(z3.simplify(lo.bv + 1), lo.signed), hi]))
        out.append((s2, Opt(z3.BoolVal(True), lo)))
    if not is_true(c) and not ex.infeasible(st.pc + [z3.Not(c)]):
        out.append((st.fork(z3.Not(c)), Opt(z3.BoolVal(False), None)))
    return out


def m_from_le_bytes(ex, args, st, depth):
    """u32::from_le_bytes([b0, b1, b2, b3]) = b0 | b1 << 8 | b2 << 16 | b3 << 24"""
    a = args[0]
    return [(st, Int(z3.Concat(a[3].bv, a[2].bv, a[1].bv, a[0].bv), False))]


def m_vec_new(ex, args, st, depth):
    """Vec::new() / Vec::with_capacity(n): the empty vector"""
    return [(st, VecV([]))]


def m_vec_push(ex, args, st, depth):
    """Vec::push(x): appends x"""
    v = deref(ex, st, args[0])
    st = State(dict(st.heap), list(st.pc))
    st.heap[args[0].cell] = set_path(st.heap[args[0].cell], args[0].path, VecV(v.items + [args[1]]))
    return [(st, UNIT)]


def m_arr_eq(ex, args, st, depth):
    """<[u8; N] as PartialEq>::eq: element-wise equality"""
    a = deref(ex, st, args[0]) if isinstance(args[0], Ref) else args[0]
    b = deref(ex, st, args[1]) if isinstance(args[1], Ref) else args[1]
    return [(st, z3.And([x.bv == y.bv for x, y in zip(a, b)]))]


def m_pixels(ex, args, st, depth):
    """ImageBuffer::pixels(): the pixels in row-major order"""
    im = deref(ex, st, args[0])
    return [(st, Iter([(None, p) for p in im.pixels], 0))]


def m_iter_map(ex, args, st, depth):
    """Iterator::map(f): lazily applies f to every item, in order"""
    return [(st, MapIter(args[0], args[1]))]


def m_collect_vec(ex, args, st, depth):
    """Iterator::collect::<Vec<_>>(): every item in order (here: the closure's MIR is executed once per pixel)"""
    mi = args[0]
    if not isinstance(mi, MapIter) or not isinstance(mi.it, Iter):
        raise Unsupported("collect over an unexpected iterator")
    clos = [f for n, f in ex.fns.items() if re.search(r"::\{closure#\d+\}$", n) and len(f.params) == 2]
    states = [(st, [])]
    for _k, px in mi.it.items[mi.it.pos:]:
        nxt = []
        for s, acc in states:
            s = State(dict(s.heap), list(s.pc))
            cc, cp = ("tmp", next(ex.next_cell)), ("tmp", next(ex.next_cell))
            s.heap[cc], s.heap[cp] = mi.closure, px
            f = [c for c in clos if c.name.startswith(ex.current_outer + "::")]
            if len(f) != 1:
                raise Unsupported("closure of %s not identified" % ex.current_outer)
            for s2, v in ex.run(f[0], [Ref(cc), Ref(cp)], s, depth + 1):
                nxt.append((s2, acc + [v]))
        states = nxt
    return [(s, VecV(acc)) for s, acc in states]


def m_dimensions(ex, args, st, depth):
    """ImageBuffer::dimensions(): (width, height)"""
    im = deref(ex, st, args[0])
    return [(st, Struct("tuple", [im.w, im.h]))]


MODELS = [
    (r"<HashMap<u32, u8, .*> as Default>::default", m_map_default),
    (r"HashMap::<u32, ColorPaletteEntry, .*>::iter", m_map_iter),
    (r"<.*Iter<'_, u32, ColorPaletteEntry> as IntoIterator>::into_iter", m_identity),
    (r"<.*Iter<'_, u32, ColorPaletteEntry> as Iterator>::next", m_iter_next),
    (r"HashMap::<u32, ColorPaletteEntry, .*>::len", m_entries_len),
    (r"HashMap::<u32, ColorPaletteEntry, .*>::get::<u32>", m_entries_get),
    (r"<std::ops::Range<\w+> as IntoIterator>::into_iter", m_identity),
    (r"<std::ops::Range<\w+> as Iterator>::next", m_range_next),
    (r"core::num::<impl u32>::from_le_bytes", m_from_le_bytes),
    (r"Vec::<u8>::with_capacity|Vec::<u8>::new", m_vec_new),
    (r"Vec::<u8>::push", m_vec_push),
    (r"<image::buffer::Pixels<'_, Rgba<u8>> as IntoIterator>::into_iter", m_identity),
    (r"<image::buffer::Pixels<'_, Rgba<u8>> as Iterator>::next", m_iter_next),
    (r"<\[u8; \d+\] as PartialEq>::eq", m_arr_eq),
    (r"HashMap::<u32, u8, .*>::insert", m_map_insert),
    (r"HashMap::<u32, u8, .*>::get::<u32>", m_map_get),
    (r"Option::<&?u8>::unwrap_or", m_unwrap_or),
    (r"ImageBuffer::<Rgba<u8>, Vec<u8>>::pixels", m_pixels),
    (r"<image::buffer::Pixels<'_, Rgba<u8>> as Iterator>::map::<u8, .*>", m_iter_map),
    (r"<Map<image::buffer::Pixels<'_, Rgba<u8>>, .*> as Iterator>::collect::<Vec<u8>>", m_collect_vec),
    (r"ImageBuffer::<Rgba<u8>, Vec<u8>>::dimensions", m_dimensions),
]
