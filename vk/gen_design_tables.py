#!/usr/bin/env python3
"""Rewrites the table of section 7 of DESIGN.md from seeded/*/meta.json."""
import json, os
VERIF = os.path.dirname(os.path.dirname(os.path.abspath(__file__)))
rows = []
for d in sorted(os.listdir(os.path.join(VERIF, "seeded"))):
    m = json.load(open(os.path.join(VERIF, "seeded", d, "meta.json")))
    det = ", ".join(m.get("detected_by") or []) or "—"
    hs = []
    for r in m.get("runs", []):
        for l in r.get("violation_lines", []):
            if l.strip().startswith("harness="):
                hs.append(l.strip().split()[0].split("=")[1])
    hs = sorted(set(hs))[:4]
    rows.append("| %s | %s | %s | %s | %s | %s |" % (d, m["property"], m["needs_to_manifest"][:150], m.get("detection_status", "pending"), det, ", ".join(hs)))
table = "| seed | property | needs to manifest | result | caught by (check tier) | failing harnesses |\n|---|---|---|---|---|---|\n" + "\n".join(rows)
p = os.path.join(VERIF, "DESIGN.md")
s = open(p).read()
marker = "## 7. Seeded changes and which check catches them"
i = s.index(marker)
s = s[:i] + marker + "\n\nEach seed was produced by a fresh sub-agent that saw only the property text and its own worktree, was confirmed by me (existing 50 tests pass with the change, its demonstration fails with it and passes without), and was then run against the registered checks with the patch applied to a scratch clone of /repo (`vk/campaign.py`; `VERIF_REPO` points the driver at the clone). 'missed' rows say what the checks do not reach.\n\n" + table + "\n"
open(p, "w").write(s)
print(table)
