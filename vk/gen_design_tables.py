#!/usr/bin/env python3
"""Rewrites the table of section 7 of DESIGN.md from seeded/*/meta.json."""
import json, os
VERIF = os.path.dirname(os.path.dirname(os.path.abspath(__file__)))
rows = []
for d in sorted(os.listdir(os.path.join(VERIF, "seeded"))):
    m = json.load(open(os.path.join(VERIF, "seeded", d, "meta.json")))
    det = ", ".join(m.get("detected_by") or []) or "—"
    hs = []
    for r in m.get("runs", []):
        for l in r.get("violation_lines", []):
            if l.strip().startswith("harness="):
                hs.append(l.strip().split()[0].split("=")[1])
            if "palette mapper (MIR -> z3)" in l:
                hs.append("MIR -> z3 palette mapper step")
    hs = sorted(set(hs))[:4]
    rows.append("| %s | %s | %s | %s | %s | %s |" % (d, m["property"], m["needs_to_manifest"][:150], m.get("detection_status", "pending"), det, ", ".join(hs)))
table = "| seed | property | needs to manifest | result | caught by (check tier) | failing harnesses |\n|---|---|---|---|---|---|\n" + "\n".join(rows)
p = os.path.join(VERIF, "DESIGN.md")
s = open(p).read()
marker = "## 7. Seeded changes and which check catches them"
i = s.index(marker)
MISSES = """
All 57 seeds are caught by a registered check (56 at the quick tier). They came in two rounds. Round 1 (48 seeds): six
(C11-C, C12-A, C12-B, C14-A, C14-B, C18-B) were missed by the first version of the checks; what closed each gap: map
identity in the palette side table (C11-C), concrete boundary values plus the chunk-list harness and a counting allocator
for native replay (C12-A, C12-B), harness readers modelling `read_exact` and the checked cut of `io::Error`'s Custom drop
glue (C14-A, C14-B), the MIR -> z3 executor (C18-B). Round 2 (9 seeds D/E/F for C11, C12, C14, C18, written by fresh
sub-agents after those changes, to see whether the new pieces generalise): C11-E, C12-E, C14-D were caught as the checks
stood; C14-E was caught by C13 only (now also by C14: hard error inside `Chunk::read_all`); C18-D/E/F were reported
inconclusive (exit 2: calls the MIR executor had no model for) until the models were added; C11-D (name flag tested as a
whole word) and C12-D (tile list reserved from the declared tilemap size) were missed and got a harness each. What the
checks still do not reach is listed as "outside" in each MANIFEST level_note.
"""
s = s[:i] + marker + "\n\nEach seed was produced by a fresh sub-agent that saw only the property text and its own worktree, was confirmed by me (existing 50 tests pass with the change, its demonstration fails with it and passes without), and was then run against the registered checks with the patch applied to a scratch clone of /repo (`vk/campaign.py`; `VERIF_REPO` points the driver at the clone). \n\n" + table + "\n" + MISSES
open(p, "w").write(s)
print(table)
