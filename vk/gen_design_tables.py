#!/usr/bin/env python3
"""Rewrites the table of section 7 of DESIGN.md from seeded/*/meta.json."""
import json, os
VERIF = os.path.dirname(os.path.dirname(os.path.abspath(__file__)))
rows = []
for d in sorted(os.listdir(os.path.join(VERIF, "seeded"))):
    m = json.load(open(os.path.join(VERIF, "seeded", d, "meta.json")))
    det = ", ".join(m.get("detected_by") or []) or "—"
    hs = []
    for r in m.get("runs", []):
        for l in r.get("violation_lines", []):
            if l.strip().startswith("harness="):
                hs.append(l.strip().split()[0].split("=")[1])
    hs = sorted(set(hs))[:4]
    rows.append("| %s | %s | %s | %s | %s | %s |" % (d, m["property"], m["needs_to_manifest"][:150], m.get("detection_status", "pending"), det, ", ".join(hs)))
table = "| seed | property | needs to manifest | result | caught by (check tier) | failing harnesses |\n|---|---|---|---|---|---|\n" + "\n".join(rows)
p = os.path.join(VERIF, "DESIGN.md")
s = open(p).read()
marker = "## 7. Seeded changes and which check catches them"
i = s.index(marker)
MISSES = """
What the misses say (each is also listed as "outside" in the property's MANIFEST level_note):

* C12-A, C12-B: reservations through `vec![0; n]` and through `Vec::with_capacity` in code that only runs after a
  successful read are not observed — the C12 harnesses cover three `with_capacity` sites reached directly from a chunk
  decoder (a harness on `Chunk::read_all` failed Kani's dealloc check spuriously and was removed).
* C14-A, C14-B: every query in which an `io::Error` value is dropped or its kind decoded more than once runs out of
  memory (std's tagged-pointer representation); `Interrupted` retries and kind-dependent conversions are not decided.
  C14-B's own conversion code makes the existing conversion harness exceed 14 GB (exit 2, not a detection).
* C18-B: `PaletteMapper` iterates one hash map and fills another; not decided.
* C11-C: the palette hash map is modelled by a side table that is emptied when a map is created, so a new palette that
  is merged into the surviving legacy map looks like a replacement. The same case on the real hash maps did not
  finish in 50 min (6.4 GB) and was dropped.
"""
s = s[:i] + marker + "\n\nEach seed was produced by a fresh sub-agent that saw only the property text and its own worktree, was confirmed by me (existing 50 tests pass with the change, its demonstration fails with it and passes without), and was then run against the registered checks with the patch applied to a scratch clone of /repo (`vk/campaign.py`; `VERIF_REPO` points the driver at the clone). 'missed' rows say what the checks do not reach.\n\n" + table + "\n" + MISSES
open(p, "w").write(s)
print(table)
