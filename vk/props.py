"""Per-property configuration of the Kani/CBMC checks (harness overlays, bounds, tiers)."""

COMMON_OVERLAYS = [("layer", "vkl.rs"), ("cel", "vkl.rs"), ("reader", "vkl.rs")]

COMMON_ASSUMPTIONS = [
    "Kani 0.68 MIR->goto translation and CBMC 6.11 + CaDiCaL are trusted; rustc dev-profile semantics "
    "(overflow checks on, debug assertions on) are what is modelled",
    "stub alloc::fmt::format -> String::new() (error-message text is outside every property)",
    "stub std::hash::RandomState::new -> fixed keys (only affects unspecified hash-map iteration order)",
    "CBMC pointer/bounds/div-by-zero instrumentation is off: the crate is safe Rust and rustc's own MIR "
    "assert terminators (overflow, bounds, unwrap/expect, division by zero) remain checked",
    "loops are unwound to the per-harness bound with unwinding assertions ON (a too-small bound fails the run)",
]

PROPS = {}


def harness_doc(pid, name):
    return PROPS[pid].get("docs", {}).get(name, "")


PROPS["C09"] = dict(
    prefix="c09_",
    overlays=[("layer", "vk_c09.rs")],
    rotate=["c09_t_parents_n6", "c09_t_visible_n6"],
    bounds="quick: 4 layers; thorough: 8 layers (parents) / 6 layers (visibility); child levels and flag words are "
           "arbitrary u16 under the format's forest precondition (first level 0, each level <= predecessor+1)",
    outside="more than 8 layers; stack depth of the recursive ancestor walk for very deep nesting",
    docs={
        "c09_q_parents_n4": "levels:[u16;4] symbolic, forest assumed; LayersData::from_vec -> compute_parents; "
                            "asserts parent(i) = max{j<i: level j < level i}, None at level 0, parent < i",
        "c09_t_parents_n6": "as n4 with 6 layers",
        "c09_t_parents_n8": "as n4 with 8 layers (the property's exhaustive bound, decided symbolically)",
        "c09_q_visible_n4": "levels, flag words:[u16;4] symbolic; sprite constructed directly; symbolic layer index; "
                            "Layer::is_visible == own VISIBLE bit && spec-visibility of spec-parent; Layer::parent agrees",
        "c09_t_visible_n6": "as visible_n4 with 6 layers",
    },
    explanation="compute_parents / Layer::parent / Layer::is_visible executed symbolically from the compiled MIR; "
                "the contribution of hidden layers to Frame::image is decided under C02 (c02_*_frame_fold)",
)


PROPS["C03"] = dict(
    prefix="c03_",
    overlays=[("blend", "vk_ref.rs"), ("blend", "vk_c03.rs")],
    pregen=[("softlight_table.py", "src/blend/vk_softtab.rs")],
    rotate=["c03_t_soft_rows_%03d" % (8 * k) for k in range(32)],
    per_harness={
        r"c03_q_normal_(alpha|red|green|blue)": dict(only_desc=r"normal == rgba_blender_normal", timeout=1500),
        r"c03_t_normal_internal_checks": dict(timeout=3000),
        r"c03_q_wrap_hsl_.*": dict(only_desc=r"HSL mode ==", timeout=900),
    },
    timeout_quick=900, timeout_thorough=2400,
    bounds="every integer harness ranges over the function's complete input domain (u8^2 for channel kernels, "
           "2^72 for normal/merge/mode(b,s,o)); no loop bound is involved",
    outside="HSL modes off the stated colour lattice; the variant->function dispatch table (Kani cannot compile it)",
)


PROPS["C17"] = dict(
    prefix="c17_",
    overlays=[("blend", "vk_ref.rs"), ("blend", "vk_c03.rs"), ("blend", "vk_c17.rs")],
    pregen=[("softlight_table.py", "src/blend/vk_softtab.rs")],
    extra_harnesses=dict(
        quick=["c03_q_wrap_soft_light", "c03_q_wrap_hsl_hue", "c03_q_wrap_hsl_saturation", "c03_q_wrap_hsl_color",
               "c03_q_wrap_hsl_luminosity", "c03_q_merge_full", "c03_q_leaf_mul_un8", "c03_q_leaf_blend8", "c03_q_leaf_div_un8",
               "c03_t_normal_internal_checks"],
        thorough=["c03_q_wrap_multiply", "c03_q_wrap_screen", "c03_q_wrap_overlay", "c03_q_wrap_darken", "c03_q_wrap_lighten",
                  "c03_q_wrap_color_dodge", "c03_q_wrap_color_burn", "c03_q_wrap_hard_light", "c03_q_wrap_difference",
                  "c03_q_wrap_exclusion", "c03_q_wrap_divide", "c03_q_wrap_addition", "c03_q_wrap_subtract",
                  "c03_q_soft_rows_060_067"]),
    per_harness={
        r"c03_q_wrap_hsl_.*": dict(only_desc=r"HSL mode ==", timeout=900),
        r"c17_q_laws_.*": dict(only_desc=r"LAW", timeout=900),
        r"c17_q_normal_opaque_identity": dict(only_desc=r"LAW", timeout=900),
        r"c03_t_normal_internal_checks": dict(timeout=3000),
    },
    bounds="all 2^72 (backdrop, source, opacity) triples per mode; no loops",
    outside="range of the HSL float pipeline off the colour lattice of C03",
)


PROPS["C02"] = dict(
    prefix="c02_",
    overlays=[("file", "vk_c02.rs")],
    extra_harnesses=dict(quick=[], thorough=[]),
    per_harness={
        r"c02_._fold_.*": dict(mem_gb=12, recursion={r"file::AsepriteFile::write_cel": 2}, timeout=1500),
    },
    jobs_thorough=6,
    bounds="raw cel unit: canvas <= 3x2, cel <= 2x2, offset over all of i16 x i16, opacities/pixels/mode unrestricted; "
           "frame fold: <= 3 layers, 2 frames, 1x1 canvas and cels, symbolic flags/levels/opacities/modes/cel kinds",
    outside="larger rectangles (source index arithmetic is decided for cel width <= 2), more than 3 layers; what the 19 "
            "blend functions compute (C03); tilemap cels in the fold (C08 harnesses)",
)


PROPS["C04"] = dict(
    prefix="c04_",
    overlays=[("lib.rs", "vk_c04.rs")],
    bounds="chunk payloads <= 58 bytes with every attribute byte symbolic (string-length bytes concrete 0/1), <= 5 layers "
           "with arbitrary u16 nesting levels, cel tables of <= 2 frames x 2 layers with symbolic link targets",
    outside="real zlib inflate (identity model of unzip), payloads longer than the skeletons, allocation failure (C12), "
            "stack depth, the whole-file loop (decided per unit; glue is read_aseprite's ?-propagation)",
)
