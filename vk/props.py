"""Per-property configuration of the Kani/CBMC checks (harness overlays, bounds, tiers)."""

COMMON_OVERLAYS = [("layer", "vkl.rs"), ("cel", "vkl.rs"), ("reader", "vkl.rs"), ("palette", "vkl.rs"), ("tile", "vkl.rs"), ("tilemap", "vkl.rs"), ("tileset", "vkl.rs")]

COMMON_ASSUMPTIONS = [
    "Kani 0.68 MIR->goto translation and CBMC 6.11 + CaDiCaL are trusted; rustc dev-profile semantics "
    "(overflow checks on, debug assertions on) are what is modelled",
    "stub alloc::fmt::format -> String::new() (error-message text is outside every property)",
    "stub std::hash::RandomState::new -> fixed keys (only affects unspecified hash-map iteration order)",
    "CBMC pointer/bounds/div-by-zero instrumentation is off: the crate is safe Rust and rustc's own MIR "
    "assert terminators (overflow, bounds, unwrap/expect, division by zero) remain checked",
    "loops are unwound to the per-harness bound with unwinding assertions ON (a too-small bound fails the run)",
]

PROPS = {}


def harness_doc(pid, name):
    return PROPS[pid].get("docs", {}).get(name, "")


PROPS["C09"] = dict(
    prefix="c09_",
    overlays=[("layer", "vk_c09.rs")],
    rotate=["c09_t_parents_n8", "c09_t_visible_n6"],
    bounds="quick: 4 layers; thorough: 8 layers (parents) / 6 layers (visibility); child levels and flag words are "
           "arbitrary u16 under the format's forest precondition (first level 0, each level <= predecessor+1)",
    outside="more than 8 layers; stack depth of the recursive ancestor walk for very deep nesting",
    docs={
        "c09_q_parents_n4": "levels:[u16;4] symbolic, forest assumed; LayersData::from_vec -> compute_parents; "
                            "asserts parent(i) = max{j<i: level j < level i}, None at level 0, parent < i",
        "c09_q_parents_n6": "as n4 with 6 layers",
        "c09_t_parents_n8": "as n4 with 8 layers (the property's exhaustive bound, decided symbolically)",
        "c09_q_visible_n4": "levels, flag words:[u16;4] symbolic; sprite constructed directly; symbolic layer index; "
                            "Layer::is_visible == own VISIBLE bit && spec-visibility of spec-parent; Layer::parent agrees",
        "c09_t_visible_n6": "as visible_n4 with 6 layers",
    },
    explanation="compute_parents / Layer::parent / Layer::is_visible executed symbolically from the compiled MIR; "
                "the contribution of hidden layers to Frame::image is decided under C02 (c02_*_frame_fold)",
)


PROPS["C03"] = dict(
    prefix="c03_",
    overlays=[("blend", "vk_ref.rs"), ("blend", "vk_c03.rs")],
    pregen=[("softlight_table.py", "src/blend/vk_softtab.rs")],
    rotate=["c03_t_soft_rows_%03d" % (8 * k) for k in range(32)],
    per_harness={
        r"c03_q_normal_(alpha|red|green|blue)": dict(only_desc=r"normal == rgba_blender_normal", timeout=1500),
        r"c03_t_normal_internal_checks": dict(timeout=3000),
        r"c03_q_wrap_hsl_.*": dict(only_desc=r"HSL mode ==", timeout=900),
    },
    timeout_quick=900, timeout_thorough=2400,
    bounds="every integer harness ranges over the function's complete input domain (u8^2 for channel kernels, "
           "2^72 for normal/merge/mode(b,s,o)); no loop bound is involved",
    outside="HSL modes off the stated colour lattice; the variant->function dispatch table (Kani cannot compile it)",
)


PROPS["C17"] = dict(
    prefix="c17_",
    overlays=[("blend", "vk_ref.rs"), ("blend", "vk_c03.rs"), ("blend", "vk_c17.rs"), ("file", "vk_c02.rs")],
    pregen=[("softlight_table.py", "src/blend/vk_softtab.rs")],
    extra_harnesses=dict(
        quick=["c03_q_wrap_soft_light", "c03_q_wrap_hsl_hue", "c03_q_wrap_hsl_saturation", "c03_q_wrap_hsl_color",
               "c03_q_wrap_hsl_luminosity", "c03_q_merge_full", "c03_q_leaf_mul_un8", "c03_q_leaf_blend8", "c03_q_leaf_div_un8",
               "c03_t_normal_internal_checks", "c02_q_raw_cel_2x2_2x1"],
        thorough=["c03_q_wrap_multiply", "c03_q_wrap_screen", "c03_q_wrap_overlay", "c03_q_wrap_darken", "c03_q_wrap_lighten",
                  "c03_q_wrap_color_dodge", "c03_q_wrap_color_burn", "c03_q_wrap_hard_light", "c03_q_wrap_difference",
                  "c03_q_wrap_exclusion", "c03_q_wrap_divide", "c03_q_wrap_addition", "c03_q_wrap_subtract",
                  "c03_q_soft_rows_060_067"]),
    per_harness={
        r"c03_q_wrap_hsl_.*": dict(only_desc=r"HSL mode ==", timeout=900),
        r"c17_q_laws_.*": dict(only_desc=r"LAW", timeout=900),
        r"c17_q_normal_opaque_identity": dict(only_desc=r"LAW", timeout=900),
        r"c03_t_normal_internal_checks": dict(timeout=3000),
    },
    bounds="all 2^72 (backdrop, source, opacity) triples per mode; no loops",
    outside="range of the HSL float pipeline off the colour lattice of C03",
)


PROPS["C02"] = dict(
    prefix="c02_",
    overlays=[("file", "vk_c02.rs")],
    extra_harnesses=dict(quick=[], thorough=[]),
    per_harness={
        r"c02_._fold_.*": dict(mem_gb=12, recursion={r"file::AsepriteFile::write_cel": 2}, timeout=1500),
    },
    jobs_thorough=6,
    bounds="raw cel unit: canvas <= 3x2, cel <= 2x2, offset over all of i16 x i16, opacities/pixels/mode unrestricted; "
           "frame fold: <= 3 layers, 2 frames, 1x1 canvas and cels, symbolic flags/levels/opacities/modes/cel kinds",
    outside="larger rectangles (source index arithmetic is decided for cel width <= 2), more than 3 layers; what the 19 "
            "blend functions compute (C03); tilemap cels in the fold (C08 harnesses)",
)


PROPS["C04"] = dict(
    prefix="c04_",
    overlays=[("lib.rs", "vk_c04.rs"), ("parse", "vk_c04p.rs")],
    bounds="chunk payloads <= 58 bytes with every attribute byte symbolic (string-length bytes concrete 0/1), <= 5 layers "
           "with arbitrary u16 nesting levels, cel tables of <= 2 frames x 2 layers with symbolic link targets",
    outside="real zlib inflate (identity model of unzip), payloads longer than the skeletons, allocation failure (C12), "
            "stack depth, the whole-file loop (decided per unit; glue is read_aseprite's ?-propagation)",
)


PROPS["C15"] = dict(
    prefix="c15_",
    overlays=[("lib.rs", "vk_c15.rs"), ("parse", "vk_c15p.rs")],
    per_harness={r"c15_t_tileset_without_embedded_pixels": dict(mem_gb=12, timeout=1200)},
    bounds="each deciding field over its whole encodable range (u16 / u8 / both pixel-ratio bytes and the depth word with all "
           "other header bytes symbolic); one chunk per frame for the propagation lemmas",
    outside="positions of the feature other than the first chunk of the first frame (dispatch is per chunk and stateless "
            "for these kinds); real zlib payloads",
)


PROPS["C10"] = dict(
    prefix="c10_",
    overlays=[("parse", "vk_c10.rs")],
    mem_gb=9, jobs_quick=5, jobs_thorough=5,
    bounds="chunk-kind sequences of length <= 6 (11 in the quick tier, 20 in the thorough tier) over layer, cel, slice, tags(2), "
           "legacy palette 0x0004/0x0011, new palette, ignorable (cel-extra/mask/path), external files and user data; user-data "
           "text byte and colour symbolic, all four flag combinations",
    outside="sequences not in the list (no inductive one-step harness was built), text longer than one byte, tags(n) for n != 2, "
            "user data in frames other than the first",
)


PROPS["C01"] = dict(
    prefix="c01_",
    overlays=[("lib.rs", "vk_c01.rs"), ("parse", "vk_c01p.rs"), ("file", "vk_c01f.rs")],
    bounds="<= 2 entities per chunk (tags, slice keys, external files), names of 0-2 symbolic ASCII bytes, every numeric "
           "attribute over its full encodable range; header with all unused bytes symbolic and 1-2 empty frames; "
           "3 layers for name lookup / iteration",
    outside="longer names and lists, multi-byte UTF-8 names, 3+ frames, palette entries (C11), cels (C06), user data (C10), "
            "tag_by_name / external_file_by_id / tilesets().get lookups (std collections; not encoded)",
)


PROPS["C11"] = dict(
    prefix="c11_",
    overlays=[("palette", "vk_c11.rs"), ("parse", "vk_c11p.rs")],
    bounds="new-format chunks of 2 entries at first index 0 / 254 with symbolic flags, RGBA and a 1-byte name; legacy chunks of "
           "2 packets (2 + 1 colours) at concrete skip pairs (0,3) (1,2) (2,1) (0,0) with symbolic components; all 6-bit values; "
           "2 indexed pixels against a 3-entry sparse palette; both chunk orders for precedence",
    outside="count byte 0 (= 256 entries), more than 2 packets / entries, symbolic palette indices (hash-map keys are concrete)",
)


PROPS["C06"] = dict(
    prefix="c06_",
    overlays=[("pixel", "vk_c06x.rs"), ("cel", "vk_c06.rs"), ("file", "vk_c02.rs"), ("file", "vk_c06f.rs")],
    per_harness={
        r"c06_._cel_image_.*": dict(mem_gb=12, recursion={r"file::AsepriteFile::write_cel": 2}, timeout=1500),
    },
    bounds="2 pixels per format with all byte values; indexed: sparse 2-entry palette {0,3} with symbolic RGBA, all transparent "
           "indices, both background settings; cel chunk header over all attribute values (1x1 payload); cel image on a 1x1 canvas",
    outside="real deflate streams (identity model of unzip; native replays use a stored-block zlib stream), larger images, "
            "offsets other than (0,0) in the image harness (clipping is decided by C02's rasteriser unit)",
)


PROPS["C08"] = dict(
    prefix="c08_",
    overlays=[("file", "vk_c08.rs")],
    bounds="geometry: canvas and tile size over all of u16 (tile size >= 1), cel offset over all tile-aligned i16 pairs, lookup "
           "coordinates over all of u32 x u32 (stored map 1x1), stored 2x2 map with coordinates < 300; rasteriser: 2x2 canvas, "
           "tiles 1x1 / 2x1, stored map 2x1, symbolic ids, offsets, opacities, mode; tileset images: 2 tiles of 2x1",
    outside="larger maps and tiles, grayscale / indexed tilesets (pixel conversion is C06), what the blend functions compute (C03)",
)


PROPS["C05"] = dict(
    prefix="c05_",
    overlays=[("lib.rs", "vk_c05.rs"), ("file", "vk_c02.rs"), ("file", "vk_c06f.rs"), ("file", "vk_c08.rs"), ("layer", "vk_c09.rs")],
    extra_harnesses=dict(
        quick=["c08_q_tilemap_geometry_and_lookup", "c08_q_tilemap_lookup_2x2", "c08_q_tileset_images",
               "c06_q_cel_image_linked", "c09_q_visible_n4"],
        thorough=["c08_q_tilemap_raster_tile1x1", "c06_q_cel_image_raw", "c06_q_cel_image_absent", "c02_q_fold_l2_k12",
                  "c02_q_raw_cel_2x2_2x1"]),
    per_harness={
        r"c0[26]_._(fold|cel_image)_.*": dict(mem_gb=12, recursion={r"file::AsepriteFile::write_cel": 2}, timeout=1500),
    },
    bounds="declared-vs-supplied sizes: 2x1 image cel / 2-tile tileset / 2x1 tilemap with 1 or 2 elements supplied, tile size 0 in "
           "either dimension, 2 symbolic tile ids against a symbolic tile count; accessor half: the bounds of the re-run C02/C06/C08/C09 harnesses",
    outside="fmt::Debug of the sprite (formatting is stubbed), stack depth of Layer::is_visible for deep nesting, tile sizes and "
            "map sizes beyond the C08 bounds (e.g. the i32 products in the tilemap rasteriser for 65535-pixel tiles), real zlib streams",
)
