"""Per-property configuration of the Kani/CBMC checks (harness overlays, bounds, tiers)."""

COMMON_OVERLAYS = [("layer", "vkl.rs")]

COMMON_ASSUMPTIONS = [
    "Kani 0.68 MIR->goto translation and CBMC 6.11 + CaDiCaL are trusted; rustc dev-profile semantics "
    "(overflow checks on, debug assertions on) are what is modelled",
    "stub alloc::fmt::format -> String::new() (error-message text is outside every property)",
    "stub std::hash::RandomState::new -> fixed keys (only affects unspecified hash-map iteration order)",
    "CBMC pointer/bounds/div-by-zero instrumentation is off: the crate is safe Rust and rustc's own MIR "
    "assert terminators (overflow, bounds, unwrap/expect, division by zero) remain checked",
    "loops are unwound to the per-harness bound with unwinding assertions ON (a too-small bound fails the run)",
]

PROPS = {}


def harness_doc(pid, name):
    return PROPS[pid].get("docs", {}).get(name, "")


PROPS["C09"] = dict(
    prefix="c09_",
    overlays=[("layer", "vk_c09.rs")],
    rotate=["c09_t_parents_n6", "c09_t_visible_n6"],
    bounds="quick: 4 layers; thorough: 8 layers (parents) / 6 layers (visibility); child levels and flag words are "
           "arbitrary u16 under the format's forest precondition (first level 0, each level <= predecessor+1)",
    outside="more than 8 layers; stack depth of the recursive ancestor walk for very deep nesting",
    docs={
        "c09_q_parents_n4": "levels:[u16;4] symbolic, forest assumed; LayersData::from_vec -> compute_parents; "
                            "asserts parent(i) = max{j<i: level j < level i}, None at level 0, parent < i",
        "c09_t_parents_n6": "as n4 with 6 layers",
        "c09_t_parents_n8": "as n4 with 8 layers (the property's exhaustive bound, decided symbolically)",
        "c09_q_visible_n4": "levels, flag words:[u16;4] symbolic; sprite constructed directly; symbolic layer index; "
                            "Layer::is_visible == own VISIBLE bit && spec-visibility of spec-parent; Layer::parent agrees",
        "c09_t_visible_n6": "as visible_n4 with 6 layers",
    },
    explanation="compute_parents / Layer::parent / Layer::is_visible executed symbolically from the compiled MIR; "
                "the contribution of hidden layers to Frame::image is decided under C02 (c02_*_frame_fold)",
)
