"""Per-property configuration of the Kani/CBMC checks (harness overlays, bounds, tiers)."""

COMMON_OVERLAYS = [("layer", "vkl.rs"), ("cel", "vkl.rs"), ("reader", "vkl.rs"), ("palette", "vkl.rs"), ("tile", "vkl.rs"), ("tilemap", "vkl.rs"), ("tileset", "vkl.rs"), ("tags", "vkl.rs")]

COMMON_ASSUMPTIONS = [
    "Kani 0.68 MIR->goto translation and CBMC 6.11 + CaDiCaL are trusted; rustc dev-profile semantics "
    "(overflow checks on, debug assertions on) are what is modelled",
    "stub alloc::fmt::format -> String::new() (error-message text is outside every property)",
    "stub std::hash::RandomState::new -> fixed keys (only affects unspecified hash-map iteration order)",
    "CBMC pointer/bounds/div-by-zero instrumentation is off: the crate is safe Rust and rustc's own MIR "
    "assert terminators (overflow, bounds, unwrap/expect, division by zero) remain checked",
    "loops are unwound to the per-harness bound with unwinding assertions ON (a too-small bound fails the run)",
]

PROPS = {}


def harness_doc(pid, name):
    return PROPS[pid].get("docs", {}).get(name, "")


PROPS["C09"] = dict(
    prefix="c09_",
    overlays=[("layer", "vk_c09.rs")],
    bounds="parents: 4, 6 and 8 layers (quick); visibility: 4 and 6 layers (quick), 8 and 10 layers (thorough); parents additionally 12 layers (thorough); child levels and flag words are "
           "arbitrary u16 under the format's forest precondition (first level 0, each level <= predecessor+1)",
    outside="more than 8 layers; stack depth of the recursive ancestor walk for very deep nesting",
    docs={
        "c09_q_parents_n4": "levels:[u16;4] symbolic, forest assumed; LayersData::from_vec -> compute_parents; "
                            "asserts parent(i) = max{j<i: level j < level i}, None at level 0, parent < i",
        "c09_q_parents_n6": "as n4 with 6 layers",
        "c09_q_parents_n8": "as n4 with 8 layers (the property's exhaustive bound, decided symbolically)",
        "c09_q_visible_n4": "levels, flag words:[u16;4] symbolic; sprite constructed directly; symbolic layer index; "
                            "Layer::is_visible == own VISIBLE bit && spec-visibility of spec-parent; Layer::parent agrees",
        "c09_q_visible_n6": "as visible_n4 with 6 layers",
        "c09_t_visible_n8": "as visible_n4 with 8 layers",
    },
    explanation="compute_parents / Layer::parent / Layer::is_visible executed symbolically from the compiled MIR; "
                "the contribution of hidden layers to Frame::image is decided under C02 (c02_*_frame_fold)",
)


PROPS["C03"] = dict(
    prefix="c03_",
    overlays=[("blend", "vk_ref.rs"), ("blend", "vk_c03.rs"), ("file", "vk_c02.rs")],
    extra_harnesses=dict(quick=["c02_q_raw_cel_2x2_2x1"], thorough=[]),
    pregen=[("softlight_table.py", "src/blend/vk_softtab.rs")],
    rotate=["c03_t_soft_rows_%03d" % (8 * k) for k in range(32)],
    per_harness={
        r"c03_q_normal_(alpha|red|green|blue)": dict(only_desc=r"normal == rgba_blender_normal", timeout=1500),
        r"c03_t_normal_internal_checks": dict(timeout=3000),
        r"c03_q_wrap_hsl_.*": dict(only_desc=r"HSL mode ==", timeout=900),
        r"c03_t_hsl_helper_.*": dict(timeout=1500, mem_gb=10),
    },
    timeout_quick=900, timeout_thorough=2400,
    bounds="every integer harness ranges over the function's complete input domain (u8^2 for channel kernels, "
           "2^72 for normal/merge/mode(b,s,o)); no loop bound is involved",
    outside="the arithmetic of the float helpers luminosity / set_saturation / set_luminocity of the four HSL modes off eight witness "
            "points (decided: the structure around them, `saturation`, the min/mid/max channel selection over all doubles); the variant->function dispatch table (Kani cannot compile it); 'through the public rendering API' is "
            "the rasteriser unit (pixel handed to the blend function, opacity product) plus the per-function results",
)


PROPS["C17"] = dict(
    prefix="c17_",
    overlays=[("blend", "vk_ref.rs"), ("blend", "vk_c03.rs"), ("blend", "vk_c17.rs"), ("file", "vk_c02.rs")],
    pregen=[("softlight_table.py", "src/blend/vk_softtab.rs")],
    extra_harnesses=dict(
        quick=["c03_q_wrap_soft_light", "c03_q_wrap_hsl_hue", "c03_q_wrap_hsl_saturation", "c03_q_wrap_hsl_color",
               "c03_q_wrap_hsl_luminosity", "c03_q_merge_full", "c03_q_leaf_mul_un8", "c03_q_leaf_blend8", "c03_q_leaf_div_un8",
               "c03_t_normal_internal_checks", "c02_q_raw_cel_2x2_2x1"],
        thorough=["c03_q_wrap_multiply", "c03_q_wrap_screen", "c03_q_wrap_overlay", "c03_q_wrap_darken", "c03_q_wrap_lighten",
                  "c03_q_wrap_color_dodge", "c03_q_wrap_color_burn", "c03_q_wrap_hard_light", "c03_q_wrap_difference",
                  "c03_q_wrap_exclusion", "c03_q_wrap_divide", "c03_q_wrap_addition", "c03_q_wrap_subtract",
                  "c03_q_soft_rows_060_067"]),
    per_harness={
        r"c03_q_wrap_hsl_.*": dict(only_desc=r"HSL mode ==", timeout=900),
        r"c17_q_laws_.*": dict(only_desc=r"LAW", timeout=900),
        r"c17_q_normal_opaque_identity": dict(only_desc=r"LAW", timeout=900),
        r"c03_t_normal_internal_checks": dict(timeout=3000),
    },
    bounds="all 2^72 (backdrop, source, opacity) triples per mode; no loops",
    outside="range of the HSL float pipeline off the colour lattice of C03",
)


PROPS["C02"] = dict(
    prefix="c02_",
    overlays=[("file", "vk_c02.rs")],
    extra_harnesses=dict(quick=[], thorough=[]),
    per_harness={
        r"c02_._fold_.*": dict(mem_gb=12, recursion={r"file::AsepriteFile::write_cel": 2}, timeout=1500),
        r"c02_._frame_gate_.*": dict(mem_gb=8, timeout=1500),
    },
    jobs_thorough=6,
    bounds="raw cel unit: canvas <= 3x2, cel <= 2x2, offset over all of i16 x i16, opacities/pixels/mode unrestricted; "
           "frame fold: <= 3 layers, 2 frames, 1x1 canvas and cels, symbolic flags/levels/opacities/modes, concrete cel kinds; "
           "frame_image gate and order alone (write_cel replaced by a recorder): 3 (quick) / 5 (thorough) layers, symbolic forest levels, flags, cel presence",
    outside="larger rectangles (source index arithmetic is decided for cel width <= 2), more than 3 layers; what the 19 "
            "blend functions compute (C03); tilemap cels in the fold (C08 harnesses)",
)


PROPS["C04"] = dict(
    prefix="c04_",
    overlays=[("lib.rs", "vk_c04.rs"), ("parse", "vk_c04p.rs"), ("parse", "vk_c10.rs")],
    per_harness={r"c04_q_read_all_any_count": dict(mem_gb=10, timeout=900)},
    extra_harnesses=dict(quick=["c10_q_attach_step_any_context"], thorough=[]),
    bounds="chunk payloads <= 58 bytes with every attribute byte symbolic (string-length bytes concrete 0/1), <= 5 layers "
           "with arbitrary u16 nesting levels, cel tables of <= 2 frames x 2 layers with symbolic link targets",
    outside="real zlib inflate (identity model of unzip), payloads longer than the skeletons, allocation failure (C12), "
            "stack depth, the whole-file loop (decided per unit; glue is read_aseprite's ?-propagation)",
)


PROPS["C15"] = dict(
    prefix="c15_",
    overlays=[("lib.rs", "vk_c15.rs"), ("parse", "vk_c15p.rs")],
    per_harness={r"c15_t_tileset_without_embedded_pixels": dict(mem_gb=14, timeout=2400), r"c15_t_frame_propagates_cel_type_error": dict(mem_gb=12, timeout=1800)},
    bounds="each deciding field over its whole encodable range (u16 / u8 / both pixel-ratio bytes and the depth word with all "
           "other header bytes symbolic); one chunk per frame for the propagation lemmas",
    outside="the refusal of tilesets without embedded pixels (TilesetsById::validate iterates a hash map: not finished in 20 min); "
            "positions of the feature other than the first chunk of the first frame (dispatch is per chunk and stateless "
            "for these kinds); real zlib payloads",
)


PROPS["C10"] = dict(
    prefix="c10_",
    overlays=[("parse", "vk_c10.rs")],
    mem_gb=9, jobs_quick=5, jobs_thorough=5,
    bounds="chunk-kind sequences of length <= 6 (11 in the quick tier, 20 in the thorough tier) over layer, cel, slice, tags(2), "
           "legacy palette 0x0004/0x0011, new palette, ignorable (cel-extra/mask/path), external files and user data; user-data "
           "text byte and colour symbolic, all four flag combinations",
    outside="sequences not in the list are covered only through the one-step harness (c10_q_attach_step_any_context: one attachment "
            "from an arbitrary context over a state with 2 layers / 2 slices / 2 tags / 1 cel) plus the per-chunk context updates seen in the "
            "listed sequences; text longer than one byte, tags(n) for n != 2, "
            "user data in frames other than the first",
)


PROPS["C01"] = dict(
    prefix="c01_",
    overlays=[("lib.rs", "vk_c01.rs"), ("parse", "vk_c01p.rs"), ("file", "vk_c01f.rs")],
    per_harness={r"c01_t_header_.*": dict(mem_gb=14, timeout=2400)},
    bounds="<= 2 entities per chunk (tags, slice keys, external files), names of 0-2 symbolic ASCII bytes, every numeric "
           "attribute over its full encodable range; header with all unused bytes symbolic and 1-2 empty frames; "
           "3 layers / 3 tags for name lookup, optional lookup and iteration",
    outside="longer names and lists, multi-byte UTF-8 names, 3+ frames, palette entries (C11), cels (C06), user data (C10), "
            "external_file_by_id / tilesets().get lookups (hash maps; not encoded)",
)


PROPS["C11"] = dict(
    prefix="c11_",
    overlays=[("palette", "vk_c11.rs"), ("parse", "vk_c11p.rs")],
    per_harness={r"c11_._new_palette_from_.*": dict(mem_gb=12, timeout=1500), r"c11_t_legacy_11_.*": dict(mem_gb=12, timeout=2400),
                 r"c11_._.*0011.*": dict(mem_gb=20, timeout=1500)},
    bounds="new-format chunks of 2 entries at first index 0 / 254 with symbolic RGBA and a 1-byte name (flag words concrete: 0xfffe "
           "unnamed, 1 and 0x8003 named); legacy chunks of "
           "2 packets (2 + 1 colours) at concrete skip pairs (0,3) (1,2) (2,1) (0,0) with symbolic components; all 6-bit values; "
           "2 indexed pixels against a 3-entry sparse palette; both chunk orders for precedence",
    outside="count byte 0 with all 256 entries present, more than 2 packets / entries, symbolic palette indices (hash-map keys are "
            "concrete); map operations other than insert / len / ColorPalette::color (extend, remove, iteration act on the real, "
            "empty map: a counterexample that depends on one does not reproduce natively and is reported as inconclusive); the "
            "real hash maps themselves (a real-map precedence harness did not finish in 50 min)",
)


PROPS["C06"] = dict(
    prefix="c06_",
    overlays=[("pixel", "vk_c06x.rs"), ("cel", "vk_c06.rs"), ("file", "vk_c02.rs"), ("file", "vk_c06f.rs")],
    per_harness={
        r"c06_._cel_image_.*": dict(mem_gb=12, recursion={r"file::AsepriteFile::write_cel": 2}, timeout=1500),
        r"c06_._(rgba|gray)_.*": dict(mem_gb=14, timeout=3000),
    },
    extra_harnesses=dict(quick=["c02_q_raw_cel_2x2_2x1"], thorough=["c02_q_raw_cel_2x2_1x2"]),
    jobs_quick=6,
    bounds="2 pixels per format with all byte values; indexed: sparse 2-entry palette {0,3} with symbolic RGBA, all transparent "
           "indices, both background settings; cel chunk header over all attribute values (1x1 payload); cel image on a 1x1 canvas",
    outside="real deflate streams (identity model of unzip; native replays use a stored-block zlib stream), larger images, "
            "offsets other than (0,0) in the image harness (clipping is decided by C02's rasteriser unit)",
)


PROPS["C08"] = dict(
    prefix="c08_",
    overlays=[("file", "vk_c02.rs"), ("file", "vk_c08.rs")],
    per_harness={r"c08_q_tileset_images": dict(mem_gb=12), r"c08_._tilemap_raster.*": dict(mem_gb=8), r"c08_t_tilemap_size_in_tiles": dict(timeout=2400),
                 r"c08_q_tilemap_cel_through_write_cel": dict(mem_gb=12, recursion={r"file::AsepriteFile::write_cel": 2}, timeout=900)},
    bounds="geometry: canvas and tile size over all of u16 (tile size >= 1), cel offset over all tile-aligned i16 pairs, lookup "
           "coordinates over all of u32 x u32 (stored map 1x1), stored 2x2 map with coordinates < 300; rasteriser: 2x2 canvas, "
           "tiles 1x1 / 2x1, stored map 2x1, symbolic ids, offsets, opacities, mode; tileset images: 2 tiles of 2x1; "
           "the route Cel::image -> write_cel -> tilemap rasteriser on a 1x1 sprite (rasteriser replaced by a recorder of its arguments)",
    outside="larger maps and tiles, grayscale / indexed tilesets (pixel conversion is C06), what the blend functions compute (C03)",
)


PROPS["C05"] = dict(
    prefix="c05_",
    overlays=[("lib.rs", "vk_c05.rs"), ("file", "vk_c02.rs"), ("file", "vk_c06f.rs"), ("file", "vk_c08.rs"), ("layer", "vk_c09.rs"), ("palette", "vk_c11.rs")],
    extra_harnesses=dict(
        quick=["c08_q_tilemap_geometry_and_lookup", "c08_q_tilemap_lookup_2x2", "c08_q_tileset_images", "c08_q_tilemap_size_in_tiles_fixed_tiles",
               "c06_q_cel_image_linked", "c09_q_visible_n4", "c11_q_indexed_pixels_need_palette_entries"],
        thorough=["c08_q_tilemap_raster_tile1x1", "c06_q_cel_image_raw", "c06_q_cel_image_absent", "c02_q_fold_l2_k12",
                  "c02_q_raw_cel_2x2_2x1"]),
    per_harness={
        r"c0[26]_._(fold|cel_image)_.*": dict(mem_gb=12, recursion={r"file::AsepriteFile::write_cel": 2}, timeout=1500),
        r"c08_q_tileset_images": dict(mem_gb=12),
        r"c05_t_tilemap_exact": dict(mem_gb=12, timeout=1500),
    },
    jobs_quick=6,
    bounds="declared-vs-supplied sizes: 2x1 image cel / 2-tile tileset / 2x1 tilemap with 1 or 2 elements supplied, tile size 0 in "
           "either dimension, 2 symbolic tile ids against a symbolic tile count; accessor half: the bounds of the re-run C02/C06/C08/C09 harnesses",
    outside="fmt::Debug of the sprite (formatting is stubbed), stack depth of Layer::is_visible for deep nesting, tile sizes and "
            "map sizes beyond the C08 bounds (e.g. the i32 products in the tilemap rasteriser for 65535-pixel tiles), real zlib streams",
)


PROPS["C13"] = dict(
    prefix="c13_",
    overlays=[("parse", "vk_c13.rs")],
    jobs_quick=5, jobs_thorough=4,
    bounds="cut offsets are concrete, contents symbolic (a file cut at c is the in-memory reader over its first c bytes): "
           "the 128-byte file header at 4 offsets (read_aseprite); the 16-byte frame header at 6 offsets (parse_frame's own reads, the "
           "chunk list reader stubbed away); one chunk at 4 offsets inside its size, type and payload (Chunk::read); a two-chunk frame at "
           "4 offsets inside the chunk payloads and a frame ending in a cel-extra / path chunk inside that payload (parse_frame, nothing stubbed)",
    outside="a symbolic cut offset, and concrete cuts inside the frame header or a chunk header with the REAL continuation of "
            "parse_frame (these queries exceed 12 GB: after the failed read the rest of parse_frame is explored on a slice of symbolic "
            "length; --paths lifo did not finish in 30 min) -- the end-to-end statement is the composition of the three units plus "
            "read_all / read_aseprite forwarding errors with `?`; files with more chunks / frames; cuts inside a real zlib stream",
)

PROPS["C14"] = dict(
    prefix="c14_",
    overlays=[("reader", "vk_c14.rs"), ("parse", "vk_c13.rs")],
    per_harness={r"c14_q_io_error_conversion_.*": dict(mem_gb=8, timeout=900, cut=[r"<core::io::CustomOwner as std::ops::Drop>::drop"], input_free=True),
                 r"c14_._hard_error_.*": dict(mem_gb=8, timeout=900, cut=[r"<core::io::CustomOwner as std::ops::Drop>::drop"])},
    bounds="symbolic contents throughout. Delivery: one byte per call (every primitive; take_bytes in the thorough tier). Transient "
           "Interrupted results at fixed call numbers (masks per harness: before, between and after partial deliveries of 1, 2 or 4 "
           "bytes) for every primitive, and for a whole frame (layer + user data chunk) delivered 4 (quick) / 5 (thorough) bytes "
           "per call with every 3rd / 2nd call interrupted, compared field by field with the in-memory parse. Hard I/O errors: one "
           "concrete kind at one concrete offset inside the bytes requested by each primitive, inside a chunk payload (Chunk::read) and "
           "inside the first of two declared chunks (Chunk::read_all) -> IoError carrying that kind, never a partial result; the io::Error -> IoError conversion and source() for two kinds",
    outside="std's read_exact is modelled for the harness readers (RetryReader/LimitReader::read_exact: retry on Interrupted, "
            "UnexpectedEof at end of input, the reader's error otherwise) without materialising the transient error value -- "
            "decoding std::io::Error's tagged pointer is a symbolic branch for CBMC and its Custom drop glue calls through an "
            "OS function table; the drop of the Custom variant is cut with a checked assert(false) (driver option `cut`), which "
            "the solver shows unreachable. NOT decided: Interrupted during read_to_end (take_bytes, unzip: std's Take and the "
            "inflater own that loop); hard errors at symbolic offsets / of symbolic kinds, or inside the frame and chunk headers of "
            "parse_frame (Result<_, io::Error> is a nullable tagged pointer: CBMC follows the Ok continuation with unconstrained "
            "lengths and runs out of memory); arbitrary (symbolic) split sizes; read_file / BufReader / real files (OS I/O)",
)


PROPS["C19"] = dict(
    prefix="c19_",
    overlays=[("file", "vk_c02.rs"), ("file", "vk_c19.rs")],
    extra_harnesses=dict(quick=["c02_q_frame_gate_l3"], thorough=["c02_t_frame_gate_l4"]),
    per_harness={r"c02_._frame_gate_.*": dict(mem_gb=8, timeout=1500), r"c19_q_single_cel_frame_equals_cel_image": dict(mem_gb=12, recursion={r"file::AsepriteFile::write_cel": 2}, timeout=1500)},
    bounds="2 frames x 3 layers with 4 raw cels at symbolic offsets, symbolic (frame, layer) in range; single-visible-cel frame on "
           "a 1x1 canvas with a second, hidden layer that also has a cel",
    outside="Tilemap::image == cel image (one-line delegation, not encoded), larger sprites",
)

PROPS["C07"] = dict(
    prefix="c07_",
    per_harness={r"c06_._(rgba|gray)_.*": dict(mem_gb=14, timeout=3000)},
    overlays=[("parse", "vk_c07.rs"), ("parse", "vk_c11p.rs"), ("parse", "vk_c15p.rs"), ("parse", "vk_c01p.rs"), ("file", "vk_c02.rs"), ("pixel", "vk_c06x.rs")],
    extra_harnesses=dict(
        quick=["c11_q_new_palette_then_legacy", "c11_q_legacy_then_new_palette", "c15_q_header_pixel_ratio_and_depth",
               "c01_q_header_no_frames", "c02_q_cel_order_201", "c06_q_indexed_raw", "c06_t_indexed_compressed"],
        thorough=["c02_q_cel_order_120", "c06_q_gray_raw", "c06_t_gray_compressed", "c06_q_rgba_raw", "c06_q_rgba_compressed"]),
    bounds="one layer chunk with symbolic attributes: count in old vs new field (old field arbitrary), 3 trailing chunk bytes, "
           "symbolic unused fields; colour profile none/sRGB + three ignorable chunks with symbolic payloads around a layer and its "
           "user data; plus the re-run C01/C02/C06/C11/C15 harnesses",
    outside="real deflate streams and compression levels (identity model of unzip): raw-vs-compressed equality is decided only "
            "under that model",
)


def _c18_mir_mapper(dst, tier, seed, ev):
    """Palette-mapper half of C18: PaletteMapper::new / lookup / to_indexed_image are symbolically executed from the
    crate's MIR (dumped from the snapshot by the nightly compiler) over z3 bit-vectors and arrays (vk/mirsmt.py,
    vk/c18_mapper.py); the hash maps are SMT arrays, std / image calls are contract models listed in the evidence.
    The encoder is validated on every run against the native code on fixed concrete vectors; a counterexample is
    replayed natively before it is reported."""
    import os, subprocess, shutil, json, re
    work = os.path.dirname(dst)
    env = dict(os.environ, CARGO_NET_OFFLINE="true", CARGO_TARGET_DIR=os.path.join(work, "mir_target"))
    for k in ("RUSTFLAGS", "CARGO_ENCODED_RUSTFLAGS", "RUSTC", "RUSTUP_TOOLCHAIN"):
        env.pop(k, None)
    mirp = os.path.join(work, "mir.txt")
    b = subprocess.run(["cargo", "+nightly", "rustc", "--offline", "--lib", "--features", "utils", "--", "-Zunpretty=mir",
                        "-C", "debug-assertions=off", "-C", "overflow-checks=on"], cwd=dst, env=env, stdout=open(mirp, "w"),
                       stderr=subprocess.PIPE, text=True)
    if b.returncode != 0 or os.path.getsize(mirp) < 1000:
        return 2, ["INCONCLUSIVE property=C18 MIR dump failed: " + (b.stderr or "")[-400:].replace("\n", " | ")], {}
    outp = os.path.join(work, "c18_mir.json")
    r = subprocess.run(["python3-vt", os.path.join(VERIF_DIR, "vk", "c18_mapper.py"), mirp, os.path.join(dst, "src"), tier, outp],
                       stdout=subprocess.PIPE, stderr=subprocess.STDOUT, text=True, timeout=3000)
    if not os.path.exists(outp):
        return 2, ["INCONCLUSIVE property=C18 MIR encoder crashed: " + r.stdout[-400:].replace("\n", " | ")], {}
    res = json.load(open(outp))
    cov = dict(mir_smt=dict(functions_encoded=res["functions"], contract_models=res["models"], bounds=res["bounds"],
                            queries_discharged=res["queries"], solver_s=res["solver_s"], solvers="z3 (python API) deciding; the first %s queries re-checked with cvc5 on the same SMT-LIB text: %s disagreements" % (res.get("cvc5_rechecked"), res.get("cvc5_disagree")),
                            encoder_wall_s=res.get("wall_s"), status=res["status"], detail=res["detail"]))
    if res["status"] == "unsupported":
        return 2, ["INCONCLUSIVE property=C18 palette mapper: the MIR encoder does not cover the current code: " + res["detail"][:300]], cov
    # ---- native side: translator validation vectors (always) and the counterexample (if any)
    ce = res.get("counterexample")
    sys_path = os.path.join(VERIF_DIR, "vk")
    import importlib.util
    vec = None
    m = re.search(r"SELF_VECTORS = dict\((.*?)\n\)", open(os.path.join(sys_path, "c18_mapper.py")).read(), re.S)
    vec = eval("dict(" + m.group(1) + ")", {"__builtins__": {}}, {"dict": dict, "None": None})
    def rs_entries(es):
        return ", ".join("(%d, [%d, %d, %d, %d])" % tuple(e) for e in es)
    def rs_opt(t):
        return "None" if t is None else "Some(%d)" % t
    t = []
    t.append("#[cfg(test)]\nmod vk_mir_native {\n    use super::*;\n    use crate::palette::ColorPaletteEntry;\n"
             "    fn pal(items: &[(u32, [u8; 4])]) -> ColorPalette {\n        let mut entries = IntMap::default();\n"
             "        for (i, c) in items {\n            entries.insert(*i, ColorPaletteEntry::vk_mk(*i, *c));\n        }\n        ColorPalette { entries }\n    }\n"
             "    fn spec_ok(entries: &[(u32, [u8; 4])], failure: u8, transparent: Option<u8>, q: [u8; 4], got: u8) -> bool {\n"
             "        if q[3] != 255 {\n            return got == transparent.unwrap_or(failure);\n        }\n"
             "        let (mut below, mut above, mut ok) = (false, false, false);\n"
             "        for (i, c) in entries {\n            if c[0] == q[0] && c[1] == q[1] && c[2] == q[2] {\n"
             "                if *i < 256 {\n                    below = true;\n                    if got as u32 == *i {\n                        ok = true;\n                    }\n                } else {\n                    above = true;\n                }\n            }\n        }\n"
             "        if below && !above {\n            ok\n        } else if !below {\n            got == failure\n        } else {\n            ok || got == failure\n        }\n    }\n")
    t.append("    #[test]\n    fn self_vectors() {\n        let es = [%s];\n        let mut k = 0;\n" % rs_entries(vec["entries"]))
    t.append("        for (failure, transparent) in [%s] {\n" % ", ".join("(%d_u8, %s)" % (o[0], rs_opt(o[1])) for o in vec["options"]))
    t.append("            for q in [%s] {\n" % ", ".join("[%d_u8, %d, %d, %d]" % tuple(q) for q in vec["queries"]))
    t.append("                let m = PaletteMapper::new(&pal(&es), MappingOptions { failure, transparent });\n"
             "                println!(\"VKVEC {} {}\", k, m.lookup(q[0], q[1], q[2], q[3]));\n                k += 1;\n            }\n        }\n    }\n")
    if ce and ce["kind"] in ("lookup", "panic"):
        t.append("    #[test]\n    fn counterexample() {\n        let es = [%s];\n        let (failure, transparent) = (%d_u8, %s);\n        let q = [%d_u8, %d, %d, %d];\n"
                 "        let m = PaletteMapper::new(&pal(&es), MappingOptions { failure, transparent });\n        let got = m.lookup(q[0], q[1], q[2], q[3]);\n"
                 "        assert!(spec_ok(&es, failure, transparent, q, got), \"lookup returned {} for {:?}\", got, q);\n    }\n" % (
                     (rs_entries(ce["entries"]), ce["failure"], rs_opt(ce["transparent"])) + tuple(ce["query"])))
    elif ce and ce["kind"] == "image" and "pixels" in ce:
        raw = ", ".join(str(c) for p in ce["pixels"] for c in p)
        t.append("    #[test]\n    fn counterexample() {\n        let es = [%s];\n        let (failure, transparent) = (%d_u8, %s);\n"
                 "        let px: Vec<u8> = vec![%s];\n        let img = RgbaImage::from_raw(%d, %d, px.clone()).unwrap();\n"
                 "        let m = PaletteMapper::new(&pal(&es), MappingOptions { failure, transparent });\n        let ((w, h), data) = to_indexed_image(img, &m);\n"
                 "        assert!(w == %d && h == %d && data.len() == %d, \"dimensions / length\");\n"
                 "        for i in 0..data.len() {\n            let q = [px[4 * i], px[4 * i + 1], px[4 * i + 2], px[4 * i + 3]];\n"
                 "            assert!(spec_ok(&es, failure, transparent, q, data[i]), \"pixel {} -> {}\", i, data[i]);\n        }\n    }\n" % (
                     rs_entries(ce["entries"]), ce["failure"], rs_opt(ce["transparent"]), raw, ce["w"], ce["h"], ce["w"], ce["h"], ce["w"] * ce["h"]))
    t.append("}\n")
    test_src = "".join(t)
    with open(os.path.join(dst, "src", "util.rs"), "a") as f:
        f.write("\n" + test_src)
    with open(os.path.join(dst, "src", "palette.rs"), "a") as f:
        f.write("\n#[cfg(test)]\nimpl ColorPaletteEntry {\n    pub(crate) fn vk_mk(id: u32, rgba8: [u8; 4]) -> Self {\n        ColorPaletteEntry { id, rgba8, name: None }\n    }\n}\n")
    env2 = dict(os.environ, CARGO_NET_OFFLINE="true", CARGO_TARGET_DIR=os.path.join(work, "native_target"))
    for k in ("RUSTFLAGS", "CARGO_ENCODED_RUSTFLAGS", "RUSTC", "RUSTUP_TOOLCHAIN"):
        env2.pop(k, None)
    n = subprocess.run(["cargo", "test", "--offline", "--features", "utils", "--lib", "vk_mir_native", "--", "--nocapture", "--test-threads", "1"],
                       cwd=dst, env=env2, stdout=subprocess.PIPE, stderr=subprocess.STDOUT, text=True, timeout=1800)
    out = n.stdout
    got = {int(a): int(b) for a, b in re.findall(r"VKVEC (\d+) (\d+)", out)}
    native = [got.get(i) for i in range(len(res["self_vectors"]))]
    cov["mir_smt"]["translator_validation"] = "%d fixed concrete vectors through the native code and through the encoding: %s" % (
        len(native), "all equal" if native == res["self_vectors"] else "DIFFER")
    if "test result" not in out:
        return 2, ["INCONCLUSIVE property=C18 native validation program failed to build: " + out[-500:].replace("\n", " | ")], cov
    if native != res["self_vectors"]:
        return 2, ["INCONCLUSIVE property=C18 the MIR encoding and the native code disagree on the validation vectors: native=%s encoded=%s" % (native, res["self_vectors"])], cov
    if not ce:
        return 0, [], cov
    rd = os.path.join(os.environ.get("VERIF_REPLAY_ROOT") or os.path.join(VERIF_DIR, "replays"), "C18", "mir_palette_mapper")
    failed = re.search(r"^failures:\n(?:.*\n)*?\s+util::vk_mir_native::counterexample\s*$", out, re.M) is not None
    if ce["kind"] == "image" and "pixels" not in ce:
        failed = False
    if not failed:
        return 2, ["INCONCLUSIVE property=C18 solver counterexample for the palette mapper did not reproduce natively (iteration-order dependent?): " + json.dumps(ce)[:300]], cov
    shutil.rmtree(rd, ignore_errors=True)
    os.makedirs(rd, exist_ok=True)
    json.dump(ce, open(os.path.join(rd, "counterexample.json"), "w"), indent=1)
    open(os.path.join(rd, "native_test.rs"), "w").write(test_src)
    open(os.path.join(rd, "native_output.txt"), "w").write(out[-4000:])
    open(os.path.join(rd, "HOWTO.txt"), "w").write("append native_test.rs to src/util.rs and the vk_mk constructor (see vk/props.py) to src/palette.rs, then\n"
                                                  "cargo test --offline --features utils --lib vk_mir_native::counterexample\n")
    return 1, ["VIOLATION property=C18 replay=%s" % rd,
               "  palette mapper (MIR -> z3): %s (reproduced natively)" % json.dumps(ce)[:400]], cov


PROPS["C18"] = dict(
    prefix="c18_",
    overlays=[("util", "vk_c18.rs")],
    features=["utils"],
    post=_c18_mir_mapper,
    technique="extrude_border: SMT/SAT-based bounded model checking of the compiled code (Kani harnesses, CBMC back end). "
              "PaletteMapper::new / lookup / to_indexed_image: symbolic execution of the crate's MIR (rustc -Zunpretty=mir, regenerated on every "
              "run) into z3 bit-vector / array terms, negated specification decided by z3 and re-checked by cvc5; counterexamples replayed natively",
    bounds="extrude_border on 1x1, 2x2 (quick), 3x1, 1x3 (thorough) images with symbolic pixels (Kani). Palette mapper (MIR -> z3): "
           "palettes of 0..3 (quick) / 0..4 (thorough) entries with symbolic pairwise-distinct indices over all of u32 and symbolic colours, "
           "visited in an arbitrary order; all mapping options; all query colours; to_indexed_image on 2x1 (quick), 2x2 and 1x3 (thorough) "
           "images of symbolic pixels; panic freedom of the MIR overflow / bounds asserts on the same inputs",
    outside="palettes with more entries and larger images (the per-entry / per-pixel code is the same; argument, not verdict); "
            "hashbrown / nohash themselves and image's pixels()/dimensions(): replaced by the contract models listed in the evidence "
            "(a real-map Kani harness does not finish: Kani's simd_bitmask model leaves hashbrown's group scan symbolic, R11); "
            "a colour that occurs both below and at/above index 256: the statement is read as allowing either such an index or the "
            "failure index (which one the crate returns depends on the map's iteration order)",
    level_text="Bounded model checking of extrude_border (Kani/CBMC) and bounded symbolic execution of the palette mapper's MIR (z3, cvc5 re-check).",
)


def _c16_send_sync(dst, tier, seed, ev):
    """Type-checker probe: a one-file crate that requires AsepriteFile: Send + Sync. Its failure to compile with a
    trait-bound error is the violation (isolated so that the cause is unambiguous)."""
    import os, subprocess, shutil
    probe = os.path.join(os.path.dirname(dst), "sendsync")
    os.makedirs(os.path.join(probe, "src"), exist_ok=True)
    open(os.path.join(probe, "Cargo.toml"), "w").write(
        '[package]\nname = "vk_sendsync"\nversion = "0.0.0"\nedition = "2021"\n[dependencies]\nasefile = { path = "../repo" }\n[workspace]\n')
    open(os.path.join(probe, "src", "lib.rs"), "w").write(
        "fn need<T: Send + Sync>() {}\npub fn probe() { need::<asefile::AsepriteFile>(); need::<asefile::Tileset>(); need::<asefile::ColorPalette>(); }\n")
    shutil.copy(os.path.join(dst, "Cargo.lock"), os.path.join(probe, "Cargo.lock"))
    env = dict(os.environ, CARGO_NET_OFFLINE="true", CARGO_TARGET_DIR=os.path.join(probe, "target"))
    p = subprocess.run(["cargo", "check", "--offline", "--quiet"], cwd=probe, env=env, stdout=subprocess.PIPE, stderr=subprocess.STDOUT, text=True)
    cov = dict(send_sync_probe="cargo check of a crate requiring AsepriteFile, Tileset, ColorPalette: Send + Sync: rc=%d" % p.returncode)
    if p.returncode == 0:
        return 0, [], cov
    out = p.stdout
    if "cannot be sent between threads safely" in out or "cannot be shared between threads safely" in out:
        rd = os.path.join(VERIF_DIR, "replays", "C16", "sendsync")
        shutil.rmtree(rd, ignore_errors=True)
        shutil.copytree(probe, rd, ignore=shutil.ignore_patterns("target"))
        open(os.path.join(rd, "rustc_output.txt"), "w").write(out)
        return 1, ["VIOLATION property=C16 replay=%s" % rd, "  the sprite type is no longer Send + Sync: " + out.strip().splitlines()[0][:200]], cov
    return 2, ["INCONCLUSIVE property=C16 send/sync probe crate failed to build for another reason: " + out[-600:].replace("\n", " | ")], cov


import os as _os
VERIF_DIR = _os.path.dirname(_os.path.dirname(_os.path.abspath(__file__)))

PROPS["C16"] = dict(
    prefix="c16_",
    overlays=[("file", "vk_c02.rs"), ("file", "vk_c16.rs"), ("parse", "vk_c16p.rs"), ("file", "vk_c08.rs"), ("palette", "vk_c11.rs")],
    extra_harnesses=dict(quick=["c08_q_tilemap_size_in_tiles_fixed_tiles", "c08_q_tilemap_geometry_and_lookup", "c11_q_legacy_04_skip_200_100",
                                "c02_q_raw_cel_2x2_2x1"],
                         thorough=["c08_t_tilemap_size_in_tiles"]),
    post=_c16_send_sync,
    per_harness={r"c16_q_accessors_repeatable": dict(mem_gb=12, recursion={r"file::AsepriteFile::write_cel": 2}, timeout=1500),
                 r"c08_t_tilemap_size_in_tiles": dict(timeout=2400)},
    bounds="2-layer (group + image) 1x1 sprite with symbolic flags / opacities / modes / pixel: accessors called repeatedly and "
           "interleaved; one layer chunk with symbolic bytes parsed twice; Send + Sync by the type checker; 'no result depends on wrapping "
           "arithmetic' = no reachable overflow check in the re-run rasteriser, tilemap geometry and legacy palette harnesses",
    outside="thread interleavings (not decidable with the installed solver-based tools: Kani does not model threads); the claim for "
            "concurrency rests on &self-only accessors + the Send/Sync probe; dev-vs-release agreement rests on no overflow check "
            "being reachable in the C02/C05/C06/C08 harnesses",
    level_text="Bounded model checking of repeatability / determinism on a small symbolic sprite, plus a type-checker probe for "
               "Send + Sync. PARTIAL: concurrency interleavings are not explored.",
)


def _c12_native_findings(dst, tier, seed, ev):
    """Native replay of the recorded C12 findings (counting global allocator around AsepriteFile::read) against the
    current tree: the files of fixed findings must stay within the bound (a regression is a VIOLATION), the file of the
    known, unrepaired finding K1 is reported as KNOWN-FINDING. This step replays concrete recorded inputs; it decides
    nothing new (the deciding step of C12 is the solver run above)."""
    import os, subprocess, shutil, json
    ex = os.path.join(dst, "examples")
    os.makedirs(ex, exist_ok=True)
    shutil.copy(os.path.join(VERIF_DIR, "findings", "vk_alloc.rs"), os.path.join(ex, "vk_alloc.rs"))
    env = dict(os.environ, CARGO_NET_OFFLINE="true", CARGO_TARGET_DIR=os.path.join(os.path.dirname(dst), "native_target"))
    env.pop("RUSTFLAGS", None)
    b = subprocess.run(["cargo", "build", "--offline", "--release", "--example", "vk_alloc", "--quiet"], cwd=dst, env=env,
                       stdout=subprocess.PIPE, stderr=subprocess.STDOUT, text=True)
    if b.returncode != 0:
        return 2, ["INCONCLUSIVE property=C12 native replay program failed to build: " + b.stdout[-400:].replace("\n", " | ")], {}
    known = json.load(open(os.path.join(VERIF_DIR, "known_findings.json")))["findings"]
    files = {"m_raw_cel_declares_4gb.ase": "F11", "n_zlib_cel_declares_4gb.ase": "F11", "o_external_files_count_16m.ase": "F11",
             "p_chunk_declares_1gb.ase": "F11", "q_cel_table_growth.ase": "K1"}
    lines, rc, rows = [], 0, []
    for fn, fid in sorted(files.items()):
        path = os.path.join(VERIF_DIR, "findings", fn)
        r = subprocess.run([os.path.join(env["CARGO_TARGET_DIR"], "release", "examples", "vk_alloc"), path], stdout=subprocess.PIPE,
                           stderr=subprocess.STDOUT, text=True, timeout=300)
        out = r.stdout.strip()
        rows.append(out[-220:])
        exceeds = "EXCEEDS" in out or r.returncode != 0
        if not exceeds:
            continue
        ent = [k for k in known if k["id"] == fid][0]
        if ent["status"] == "known":
            lines.append("KNOWN-FINDING: property=C12 %s [%s]" % (ent["what"][:300], out[-160:]))
        else:
            rd = os.path.join(VERIF_DIR, "replays", "C12", fn)
            os.makedirs(rd, exist_ok=True)
            shutil.copy(path, rd)
            shutil.copy(os.path.join(VERIF_DIR, "findings", "vk_alloc.rs"), rd)
            open(os.path.join(rd, "measurement.txt"), "w").write(out + "\n")
            lines.append("VIOLATION property=C12 replay=%s" % rd)
            lines.append("  recorded input of fixed finding %s exceeds the bound again: %s" % (fid, out[-200:]))
            rc = 1
    return rc, lines, dict(native_replay_of_recorded_findings=rows)


PROPS["C12"] = dict(
    prefix="c12_",
    post=_c12_native_findings,
    overlays=[("lib.rs", "vk_c12.rs"), ("parse", "vk_c04p.rs")],
    # With alloc::vec::from_elem stubbed, Kani's C model of __rust_dealloc reports a size mismatch for vectors created by
    # the stub's own call of from_elem_in on the UNCHANGED tree (not reproducible natively; a model artefact of stubbing an
    # allocation entry point). Those C-level checks are ignored for this one harness; they do not end paths, so the
    # harness's own bound assertion is still decided on every path.
    per_harness={r"c12_._tileset_(declared_sizes|compressed_length_.*)": dict(ignore_checks=r"^__rust_dealloc\."),
                 r"c12_q_read_all_declared_count": dict(ignore_checks=r"^__rust_dealloc\.", mem_gb=10, timeout=900),
                 # same artefact family on the tilemap-cel path (Kani's allocation model after a stubbed Vec::with_capacity:
                 # dealloc size, "pointer invalid" on the vector the identity-unzip stub returns); none reproduces natively
                 r"c12_q_tilemap_cel_declared_size": dict(ignore_checks=r"^__rust_dealloc\.|\.safety_check\.\d+$|\.precondition_instance\.\d+$|^kani::mem::cbmc::same_allocation\.unsupported_construct")},
    bounds="largest single Vec::with_capacity request (recorded by a stub) for: a raw image cel with declared width x height over all "
           "of u16 x u16 in a 24-byte chunk; an external-files chunk with entry count over all of u32; a tags chunk with count over all of u16; "
           "every vec![0; n] request while a tileset chunk with symbolic tile count, tile size and compressed-length field is decoded, and with "
           "that field at concrete boundary values (u32::MAX; allowance + 1); a tilemap cel with declared width x height over all of u16 x u16; "
           "Chunk::read_all with the chunk count over all of u32 and the byte budget over the range parse_frame can pass",
    outside="PARTIAL: the sum of live allocations (peak heap) is not decided; reservations inside the inflater path "
            "(AseReader::unzip: compressed cels, tilesets, tilemaps) cannot be observed because real inflate is not encodable; "
            "vec![0; n] / resize sites (chunk payload buffer, cel table growth by layer index, frame tables) are bounded by argument "
            "only (see DESIGN.md C12); deflate bombs",
    level_text="Bounded model checking of the reservation argument at three declared-size sites; PARTIAL (see level_note).",
)
