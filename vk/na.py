"""Properties not (yet) claimed, with the reason. Entries disappear as checks are built."""
_PENDING = "check not built yet in this round (planned in DESIGN.md section 2); no claim is made until its harnesses exist and pass"
NA = {p: _PENDING for p in ["C19"]}
