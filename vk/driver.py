#!/usr/bin/env python3
"""Solver-based checking driver for alpine-alpaca/asefile.

For one property id it
  1. snapshots /repo's *working tree* into a scratch directory (outside /repo, /verif),
  2. overlays the Kani proof harnesses of that property (append-only `mod` lines),
  3. compiles once with kani-compiler (rustc MIR -> goto programs, one per harness),
  4. runs Kani's goto-cc / goto-instrument / cbmc pipeline per harness in parallel,
  5. classifies every CBMC property (assertion / cover / unwind / unsupported),
  6. for failed assertions: obtains the solver's assignment as a Kani concrete-playback
     unit test and replays it natively (dev + release) against the same tree,
  7. writes /verif/evidence/<ID>.json and prints VIOLATION / KNOWN-FINDING lines.

Exit codes: 0 property held on everything explored; 1 violation (reproduced natively);
2 inconclusive (harness build failure, timeout, OOM, vacuous harness, unreproduced cex).
"""
import argparse
import concurrent.futures as cf
import hashlib
import json
import os
import re
import resource
import shutil
import signal
import subprocess
import sys
import tempfile
import time

VERIF = os.path.dirname(os.path.dirname(os.path.abspath(__file__)))
REPO = os.environ.get("VERIF_REPO", "/repo")
KANI_HOME = os.path.expanduser("~/.kani/kani-0.68.0")
KANI_LIB_C = os.path.join(KANI_HOME, "library/kani/kani_lib.c")
CACHE = os.path.join(VERIF, ".cache")

sys.path.insert(0, os.path.join(VERIF, "vk"))
import props as PROPS  # noqa: E402

BASE_ENV = dict(os.environ)
BASE_ENV["CARGO_NET_OFFLINE"] = "true"
BASE_ENV["RUSTFLAGS"] = "-Zcrate-attr=feature(allocator_api)"  # harness stubs name HashMap<K,V,S,A>
BASE_ENV.pop("CARGO_TARGET_DIR", None)
BASE_ENV.pop("RUSTUP_TOOLCHAIN", None)

KANI_BUILD_FLAGS = [
    "-Z", "stubbing", "-Z", "unstable-options",
    "--no-memory-safety-checks", "--no-overflow-checks", "--no-assertion-reach-checks",
]
CBMC_FLAGS = [
    "--no-malloc-may-fail", "--no-undefined-shift-check", "--no-signed-overflow-check",
    "--no-bounds-check", "--no-pointer-check", "--no-div-by-zero-check",
    "--no-self-loops-to-assumptions", "--no-pointer-primitive-check",
    "--object-bits", "16", "--sat-solver", "cadical", "--slice-formula",
    "--max-field-sensitivity-array-size", "4096",
]


DEFAULT_LOOPS = {r"std::vec::Vec::<u8>::extend_with": 72}


def log(*a):
    print(*a, file=sys.stderr, flush=True)


def sh(cmd, cwd=None, env=None, timeout=None, mem_gb=None, stdout=subprocess.PIPE):
    def pre():
        os.setsid()
        if mem_gb:
            lim = int(mem_gb * (1 << 30))
            resource.setrlimit(resource.RLIMIT_AS, (lim, lim))
    p = subprocess.Popen(cmd, cwd=cwd, env=env or BASE_ENV, stdout=stdout,
                         stderr=subprocess.STDOUT, preexec_fn=pre, text=True, errors="replace")
    try:
        out, _ = p.communicate(timeout=timeout)
        return p.returncode, out or ""
    except subprocess.TimeoutExpired:
        try:
            os.killpg(p.pid, signal.SIGKILL)
        except ProcessLookupError:
            pass
        out, _ = p.communicate()
        return -9, (out or "") + "\n<<TIMEOUT>>"


# ----------------------------------------------------------------------------- scratch + overlay

def make_scratch(tag):
    base = os.environ.get("VERIF_SCRATCH") or os.environ.get("TMPDIR") or "/var/tmp"
    os.makedirs(base, exist_ok=True)
    return tempfile.mkdtemp(prefix="asefile-vk-%s-" % tag, dir=base)


def snapshot_repo(scratch):
    dst = os.path.join(scratch, "repo")
    os.makedirs(dst)
    rc, out = sh(["rsync", "-a", "--exclude", "/target", "--exclude", "/.git", REPO + "/", dst + "/"])
    if rc != 0:
        raise RuntimeError("rsync failed: " + out)
    # warm target dir (dependencies compiled by setup_cmd); a copy, so concurrent checks never share
    warm = os.path.join(CACHE, "target")
    if os.path.isdir(warm):
        sh(["cp", "-a", warm, os.path.join(dst, "target")])
    return dst


def overlay(dst, cfg, extra_files=None):
    """Append-only overlay: harness files are added, `mod` lines appended. Returns list of files."""
    added = []
    # shared library at crate root
    lib_src = os.path.join(VERIF, "harness", "lib")
    for fn in sorted(os.listdir(lib_src)):
        if fn.endswith(".rs"):
            shutil.copy(os.path.join(lib_src, fn), os.path.join(dst, "src", fn))
            added.append("src/" + fn)
    with open(os.path.join(dst, "src", "lib.rs"), "a") as f:
        f.write("\n#[cfg(kani)]\n#[allow(dead_code, unused_imports, unused_variables)]\npub(crate) mod vklib;\n")
    for gen, rel in cfg.get("pregen", []):
        tgt = os.path.join(dst, rel)
        os.makedirs(os.path.dirname(tgt), exist_ok=True)
        rc, o = sh([sys.executable, os.path.join(VERIF, "gen", gen), tgt])
        if rc != 0:
            raise RuntimeError("generator %s failed: %s" % (gen, o))
        added.append(rel)
    for module, fname in PROPS.COMMON_OVERLAYS + [o for o in cfg["overlays"] if o not in PROPS.COMMON_OVERLAYS]:
        src = os.path.join(VERIF, "harness", module, fname)
        if extra_files and (module, fname) in extra_files:
            src = extra_files[(module, fname)]
        modname = fname[:-3]
        if module == "lib.rs":
            tgt_dir = os.path.join(dst, "src")
            host = os.path.join(dst, "src", "lib.rs")
        else:
            tgt_dir = os.path.join(dst, "src", module)
            host = os.path.join(dst, "src", module + ".rs")
        os.makedirs(tgt_dir, exist_ok=True)
        shutil.copy(src, os.path.join(tgt_dir, fname))
        with open(host, "a") as f:
            f.write("\n#[cfg(kani)]\n#[allow(dead_code, unused_imports, unused_variables, unused_mut)]\npub(crate) mod %s;\n" % modname)
        added.append(os.path.relpath(os.path.join(tgt_dir, fname), dst))
    return added


# ----------------------------------------------------------------------------- build

def kani_build(dst, cfg, harness_filter=None):
    cmd = ["cargo", "kani", "--only-codegen"] + KANI_BUILD_FLAGS
    if cfg.get("features"):
        cmd += ["--features", ",".join(cfg["features"])]
    for h in harness_filter or []:
        cmd += ["--harness", h]
    t0 = time.time()
    rc, out = sh(cmd, cwd=dst, timeout=1800)
    dt = time.time() - t0
    if rc != 0:
        return None, out, dt
    metas = []
    for root, _d, files in os.walk(os.path.join(dst, "target", "kani")):
        for fn in files:
            if fn.endswith(".kani-metadata.json") and fn.startswith("asefile-"):
                metas.append(os.path.join(root, fn))
    if not metas:
        return None, out + "\n<<no kani-metadata.json>>", dt
    metas.sort(key=os.path.getmtime)
    with open(metas[-1]) as f:
        return json.load(f), out, dt


# ----------------------------------------------------------------------------- per-harness pipeline

def prop_class(name):
    # e.g. "asefile::blend::vk::foo.assertion.1", "...cover.2", "...unwind.0"
    parts = name.rsplit(".", 2)
    return parts[1] if len(parts) == 3 else "other"


def run_harness(h, opts):
    """Runs goto-cc/goto-instrument/cbmc for one harness. Returns a result dict."""
    name = h["pretty_name"].split("::")[-1]
    res = dict(harness=name, pretty=h["pretty_name"], src=h.get("original_file"), unwind=h["attributes"].get("unwind_value"),
               stubs=[(s["original"], s["replacement"]) for s in h["attributes"].get("stubs", [])],
               status="error", checks=0, failed=[], covers_total=0, covers_sat=0, covers_unsat=[],
               unwind_failed=[], unsupported_failed=[], symex_s=None, solver_s=0.0, wall_s=0.0,
               vccs=None, detail="")
    sym = h["goto_file"]
    out = sym[:-len(".symtab.out")] + ".out"
    mangled = h["mangled_name"]
    t0 = time.time()
    steps = [
        ["goto-cc", sym, KANI_LIB_C, "-o", out],
        ["goto-cc", out, "--function", mangled, "-o", out],
        ["goto-instrument", "--add-library", "--no-malloc-may-fail", out, out],
        ["goto-instrument", "--generate-function-body-options", "assert-false-assume-false",
         "--generate-function-body", ".*", "--drop-unused-functions", out, out],
        ["goto-instrument", "--ensure-one-backedge-per-target", out, out],
    ]
    for si, st in enumerate(steps):
        if si == 3 and opts.get("cut"):
            # "cut with a checked assumption": the bodies of the matching functions are removed, the next step gives them
            # the body assert(false); assume(false). If the solver can reach one of them the generated assertion fails
            # and the harness is reported as inconclusive (class `unsupported`), never as held.
            rc, l0 = sh(["goto-instrument", "--list-goto-functions", out], timeout=120)
            cutm = []
            for line in l0.splitlines():
                mm = re.match(r"^(.*?) /\* (_R\S+?)(, body not available)? \*/\s*$", line.strip())
                if mm and not mm.group(3) and any(re.fullmatch(rx, mm.group(1)) for rx in opts["cut"]):
                    cutm.append((mm.group(1), mm.group(2)))
            res["cut"] = [c[0] for c in cutm]
            if cutm:
                c = ["goto-instrument"]
                for _p, m in cutm:
                    c += ["--remove-function-body", m]
                rc, o = sh(c + [out, out], timeout=600)
                if rc != 0:
                    res["detail"] = "pipeline step failed: remove-function-body\n%s" % o[-2000:]
                    res["wall_s"] = time.time() - t0
                    return res
        rc, o = sh(st, timeout=600)
        if rc != 0:
            res["detail"] = "pipeline step failed: %s\n%s" % (" ".join(st[:3]), o[-2000:])
            res["wall_s"] = time.time() - t0
            return res
    listing = ""
    if opts.get("list_functions") or opts.get("recursion"):
        rc, listing = sh(["goto-instrument", "--list-goto-functions", out], timeout=120)
        res["functions"] = sorted(set(demangle_asefile(listing)))
    unwindset = []
    for rx, n in (opts.get("recursion") or {}).items():
        # bound for a recursive function (unwinding assertions stay on): label = mangled function name
        for line in listing.splitlines():
            mm = re.match(r"^(.*?) /\* (_R\S+?)(, body not available)? \*/\s*$", line.strip())
            if mm and not mm.group(3) and re.fullmatch(rx, mm.group(1)):
                unwindset.append("%s:%d" % (mm.group(2), n))
    cmd = ["cbmc"] + CBMC_FLAGS
    unwind = opts.get("unwind") or res["unwind"]
    if unwind:
        cmd += ["--unwind", str(unwind)]
    for p in opts.get("property", []):
        cmd += ["--property", p]
    if opts.get("only_desc"):
        # restrict the run to the harness's own assertions whose description matches, plus all covers
        rc, o = sh(["cbmc", "--show-properties", "--json-ui"] + (["--unwind", str(unwind)] if unwind else []) + [out], timeout=600)
        sel = []
        try:
            for m in json.loads(o[o.index("["):]):
                for pr in (m.get("properties") or []) if isinstance(m, dict) else []:
                    if prop_class(pr.get("name", "")) in ("cover", "unwind") or \
                            re.search(opts["only_desc"], pr.get("description", "")):
                        sel.append(pr["name"])
        except Exception as e:
            res["detail"] = "could not list properties: %s %s" % (e, o[-500:])
            return res
        if not any(prop_class(x) != "cover" for x in sel):
            res["detail"] = "only_desc %r matched no property" % opts["only_desc"]
            return res
        res["restricted_to"] = opts["only_desc"]
        for x in sel:
            cmd += ["--property", x]
    # loops of std that a harmless refactoring of the crate can pull in with a concrete trip count above the harness's
    # tight global bound (Vec::<u8>::resize -> extend_with): give them their own, larger bound. Unwinding assertions stay on.
    loops = dict(DEFAULT_LOOPS)
    loops.update(opts.get("loops") or {})
    if loops and not listing:
        rc, listing = sh(["goto-instrument", "--list-goto-functions", out], timeout=120)
    if loops:
        rc_l, loop_list = sh(["goto-instrument", "--show-loops", out], timeout=120)
        known = set(re.findall(r"Loop (\S+):", loop_list))
        for rx, n in loops.items():
            for line in listing.splitlines():
                mm = re.match(r"^(.*?) /\* (_R\S+?)(, body not available)? \*/\s*$", line.strip())
                if mm and not mm.group(3) and re.fullmatch(rx, mm.group(1)):
                    for lid in sorted(known):
                        if lid.startswith(mm.group(2) + "."):
                            unwindset.append("%s:%d" % (lid, n))
    if unwindset:
        cmd += ["--unwindset", ",".join(unwindset)]
        res["unwindset"] = unwindset
    cmd += opts.get("cbmc_extra", [])
    cmd += [out, "--verbosity", "9", "--json-ui"]
    res["cbmc_cmd"] = " ".join(cmd)
    rc, o = sh(cmd, timeout=opts.get("timeout", 600), mem_gb=opts.get("mem_gb", 8))
    res["wall_s"] = round(time.time() - t0, 2)
    if rc == -9:
        res["status"] = "timeout"
        res["detail"] = "cbmc exceeded %ss" % opts.get("timeout", 600)
        return res
    try:
        msgs = json.loads(o[o.index("["):])
    except Exception:
        res["status"] = "error"
        res["detail"] = "cbmc rc=%s, unparsable output (OOM under ulimit?): %s" % (rc, o[-1500:])
        if "bad_alloc" in o or "Out of memory" in o or rc in (-6, 134, -11):
            res["status"] = "oom"
        return res
    results = None
    for m in msgs:
        if not isinstance(m, dict):
            continue
        if "result" in m:
            results = m["result"]
        t = m.get("messageText", "")
        mm = re.search(r"Runtime Symex: ([0-9.e+-]+)s", t)
        if mm:
            res["symex_s"] = float(mm.group(1))
        mm = re.search(r"Runtime Solver: ([0-9.e+-]+)s", t)
        if mm:
            res["solver_s"] += float(mm.group(1))
        mm = re.search(r"Generated (\d+) VCC\(s\), (\d+) remaining", t)
        if mm:
            res["vccs"] = [int(mm.group(1)), int(mm.group(2))]
        if m.get("messageType") == "ERROR":
            res["detail"] += t + "\n"
    if results is None:
        res["status"] = "error"
        res["detail"] += "no result array in cbmc output (rc=%s): %s" % (rc, o[-1500:])
        return res
    for r in results:
        pc = prop_class(r.get("property", ""))
        st = r.get("status")
        loc = r.get("sourceLocation", {})
        where = "%s:%s" % (loc.get("file", "?"), loc.get("line", "?"))
        ent = dict(property=r.get("property"), description=r.get("description", ""), where=where,
                   function=loc.get("function", ""))
        if pc == "cover":
            res["covers_total"] += 1
            # Kani encodes cover!(c) as assert(!c): FAILURE == satisfiable
            if st == "FAILURE":
                res["covers_sat"] += 1
            else:
                res["covers_unsat"].append(ent)
            continue
        res["checks"] += 1
        if st == "FAILURE" and opts.get("ignore_checks") and re.search(opts["ignore_checks"], ent["property"] or ""):
            # a documented artefact of the verification model for this harness (see props.py), not a property of the crate
            res["ignored_model_checks"] = res.get("ignored_model_checks", 0) + 1
            continue
        if st == "FAILURE":
            if pc == "unwind" or "unwinding assertion" in ent["description"]:
                res["unwind_failed"].append(ent)
            elif pc == "unsupported_construct" or pc == "sanity_check" or "undefined function should be unreachable" in ent["description"]:
                res["unsupported_failed"].append(ent)
            else:
                res["failed"].append(ent)
        elif st == "ERROR":
            res["solver_error"] = res.get("solver_error", 0) + 1
        elif st not in ("SUCCESS",):
            res["unsupported_failed"].append(dict(ent, description="status=%s %s" % (st, ent["description"])))
    res["solver_s"] = round(res["solver_s"], 2)
    if res.get("solver_error"):
        res["status"] = "oom"
        res["detail"] += "CBMC reported status ERROR for %d properties (solver ran out of memory under the ulimit?)" % res["solver_error"]
    elif res["failed"]:
        res["status"] = "failed"
    elif res["unwind_failed"]:
        res["status"] = "unwind"
    elif res["unsupported_failed"]:
        res["status"] = "unsupported"
    elif res["covers_unsat"] and not opts.get("allow_unsat_cover"):
        res["status"] = "vacuous"
    elif res["covers_total"] == 0:
        res["status"] = "vacuous"
        res["detail"] += "harness has no cover (vacuity witness required)"
    else:
        res["status"] = "ok"
    return res


_MODS = None


def crate_modules():
    global _MODS
    if _MODS is None:
        _MODS = sorted(fn[:-3] for fn in os.listdir(os.path.join(REPO, "src")) if fn.endswith(".rs") and fn not in ("lib.rs", "tests.rs"))
    return _MODS


def demangle_asefile(text):
    """Functions of the asefile crate itself (not harness code, not std/deps) present in the goto binary."""
    outl = []
    mods = crate_modules()
    for line in text.splitlines():
        mm = re.match(r"^(.*?) /\* (_R\S+?)(, body not available)? \*/\s*$", line.strip())
        if not mm or mm.group(3):
            continue
        pretty = mm.group(1)
        head = pretty.lstrip("<")
        if not any(head.startswith(m + "::") for m in mods):
            continue
        if "::vk" in pretty or "vklib" in pretty:
            continue
        outl.append("asefile::" + pretty if not pretty.startswith("<") else pretty)
    return outl


# ----------------------------------------------------------------------------- replay (concrete playback)

PLAYBACK_RUSTFLAGS = (
    "-Coverflow-checks=on\x1f-Zunstable-options\x1f-Ztrim-diagnostic-paths=no\x1f"
    "-Zhuman_readable_cgu_names\x1f-Zalways-encode-mir\x1f--cfg=kani\x1f"
    "-Zcrate-attr=feature(register_tool)\x1f-Zcrate-attr=register_tool(kanitool)\x1f"
    "--force-warn\x1funstable_features\x1f--sysroot\x1f{home}/playback\x1f-L\x1f{home}/playback/lib\x1f"
    "--extern\x1fforce:kani\x1f--extern\x1fnoprelude,nounused:std={home}/playback/lib/libstd.rlib\x1f"
    "-Zcrate-attr=feature(allocator_api)"
).format(home=KANI_HOME)


def playback_generate(dst, cfg, harness_name, timeout, src_rel=None):
    """Re-run Kani on one failing harness asking for the solver assignment as a unit test (printed), and append the
    test to the END of the harness's source file. (Kani's own in-place insertion puts the test inside the macro body
    when the harness function is generated by a macro_rules! macro, which then expands it once per invocation.)"""
    cmd = ["cargo", "kani", "--harness", harness_name, "--exact",
           "-Z", "concrete-playback", "--concrete-playback=print"] + KANI_BUILD_FLAGS
    cmd += ["--cbmc-args", "--max-field-sensitivity-array-size", "4096"]
    if cfg.get("features"):
        cmd[2:2] = ["--features", ",".join(cfg["features"])]
    rc, out = sh(cmd, cwd=dst, timeout=timeout)
    # blocks are delimited by lines that are exactly ``` (doc comments inside a block may contain "/// ```" lines)
    blocks, cur = [], None
    for line in out.splitlines():
        if line.strip() == "```" and not line.lstrip().startswith("///"):
            if cur is None:
                cur = []
            else:
                blocks.append("\n".join(cur) + "\n")
                cur = None
        elif cur is not None:
            cur.append(line)
    def _sanitize(b):
        # a multi-line assertion message breaks Kani's generated doc comment: re-prefix stray lines before #[test]
        outl, in_doc = [], True
        for ln in b.splitlines():
            if ln.strip().startswith("#[test]"):
                in_doc = False
            if in_doc and ln.strip() and not ln.lstrip().startswith("///"):
                ln = "/// " + ln
            outl.append(ln)
        return "\n".join(outl) + "\n"
    blocks = [_sanitize(b) for b in blocks]
    tests, code = [], []
    for b in blocks:
        m = re.search(r"fn (kani_concrete_playback_\w+)\(\)", b)
        if m and m.group(1) not in tests:
            tests.append(m.group(1))
            code.append(b)
    if tests and src_rel:
        with open(os.path.join(dst, src_rel), "a") as f:
            f.write("\n// ---- concrete playback tests generated from solver counterexamples ----\n")
            for c in code:
                f.write(c + "\n")
    return tests, out


def playback_run(dst, cfg, test_names, release):
    env = dict(BASE_ENV)
    env["CARGO_ENCODED_RUSTFLAGS"] = PLAYBACK_RUSTFLAGS + ("\x1f-Cdebug-assertions=on" if release else "")
    env["RUSTC"] = os.path.join(KANI_HOME, "bin/kani-compiler")
    env["CARGO_TERM_PROGRESS_WHEN"] = "never"
    env["RUST_BACKTRACE"] = "0"
    env["RUST_MIN_STACK"] = str(2 * 1024 * 1024)
    cmd = [os.path.join(KANI_HOME, "toolchain/bin/cargo"), "test", "--lib",
           "--target", "x86_64-unknown-linux-gnu", "-Zhost-config", "-Ztarget-applies-to-host",
           '--config=host.rustflags=["--cfg=kani_host"]']
    if release:
        cmd.append("--release")
    if cfg.get("features"):
        cmd += ["--features", ",".join(cfg["features"])]
    cmd += ["--", "--test-threads", "1"] + test_names
    rc, out = sh(cmd, cwd=dst, env=env, timeout=1800)
    failed = re.findall(r"^test (\S+) \.\.\. FAILED", out, re.M)
    passed = re.findall(r"^test (\S+) \.\.\. ok", out, re.M)
    crashed = rc != 0 and not failed and ("SIGSEGV" in out or "SIGABRT" in out or "stack overflow" in out)
    built = ("running " in out)
    return dict(rc=rc, failed=failed, passed=passed, crashed=crashed, built=built, tail=out[-3000:])


# ----------------------------------------------------------------------------- known findings

def load_known():
    p = os.path.join(VERIF, "known_findings.json")
    if not os.path.exists(p):
        return []
    with open(p) as f:
        return json.load(f).get("findings", [])


def match_known(known, pid, harness, ent):
    for k in known:
        if k.get("status") != "known":
            continue
        if k["property"] != pid:
            continue
        if k.get("harness") and not re.fullmatch(k["harness"], harness):
            continue
        if k.get("where") and not re.search(k["where"], ent["where"] + " " + ent.get("function", "")):
            continue
        if k.get("description") and not re.search(k["description"], ent["description"]):
            continue
        return k
    return None


# ----------------------------------------------------------------------------- main check

def select_harnesses(meta, cfg, tier, seed, only):
    hs = []
    pref = cfg["prefix"]
    rot = rotated(cfg, tier, seed)
    extra = extra_names(cfg, tier)
    for h in meta["proof_harnesses"]:
        nm = h["pretty_name"].split("::")[-1]
        if not nm.startswith(pref) and nm not in extra:
            continue
        if only:
            if re.search(only, nm):
                hs.append(h)
            continue
        if nm in extra:
            hs.append(h)
        elif not nm.startswith(pref):
            continue
        elif nm.startswith(pref + "q_") or nm in rot:
            hs.append(h)
        elif nm.startswith(pref + "t_") and tier == "thorough":
            hs.append(h)
    return hs


def extra_names(cfg, tier):
    """Harnesses borrowed from another property's harness file (exact names), per tier."""
    e = cfg.get("extra_harnesses", {})
    return list(e.get("quick", [])) + (list(e.get("thorough", [])) if tier == "thorough" else [])


def rotated(cfg, tier, seed):
    """VERIF_SEED rotates one of the (cheap) thorough-only harnesses listed in cfg['rotate'] into the quick tier."""
    r = cfg.get("rotate") or []
    if tier != "quick" or not r:
        return []
    return [r[seed % len(r)]]


def harness_opts(cfg, name, tier):
    o = dict(timeout=cfg.get("timeout_%s" % tier, 900 if tier == "quick" else 3600), mem_gb=cfg.get("mem_gb", 5))
    for rx, d in cfg.get("per_harness", {}).items():
        if re.fullmatch(rx, name):
            o.update(d)
    return o


def names_for_tier(cfg, tier, seed):
    """Harness name filters passed to the compiler so that only this tier is code-generated."""
    if tier == "thorough":
        return [cfg["prefix"]] + extra_names(cfg, tier)
    return [cfg["prefix"] + "q_"] + rotated(cfg, tier, seed) + extra_names(cfg, tier)


def do_check(pid, tier, seed, only=None, keep=False, jobs=None, no_replay=False):
    cfg = PROPS.PROPS[pid]
    t_start = time.time()
    scratch = make_scratch(pid)
    ev = dict(property_id=pid, tier=tier, seed=seed, level="model_checking", violations=0, wall_s=0.0,
              coverage={}, assumptions=[])
    exit_code = 0
    lines = []
    try:
        dst = snapshot_repo(scratch)
        added = overlay(dst, cfg)
        filt = names_for_tier(cfg, tier, seed) if not only else [cfg["prefix"]] + extra_names(cfg, "thorough")
        meta, bout, bdt = kani_build(dst, cfg, filt)
        if meta is None:
            msg = "\n".join([l for l in bout.splitlines() if "error" in l.lower()][:20]) or bout[-2000:]
            print("INCONCLUSIVE property=%s harness-build-failed\n%s" % (pid, msg))
            ev["coverage"] = dict(explanation="harness build failed against the current tree: " + msg[:1500],
                                  evaluations=0, distinct_nontrivial=0, states=0, transitions=0)
            ev["level"] = "other"
            write_evidence(pid, ev, t_start)
            return 2
        hs = select_harnesses(meta, cfg, tier, seed, only)
        if not hs:
            print("INCONCLUSIVE property=%s no harness selected" % pid)
            return 2
        jobs = jobs or cfg.get("jobs_%s" % tier) or min(10, len(hs))
        results = []
        first = True
        # memory budget: the address-space caps of concurrently running harnesses never add up to more than
        # VERIF_MEM_BUDGET_GB (default 40), so that a check cannot drive the machine into the OOM killer by itself
        import threading
        budget = float(os.environ.get("VERIF_MEM_BUDGET_GB", "40"))
        cond = threading.Condition()
        used = [0.0]

        def guarded(h, o):
            need = min(float(o.get("mem_gb", 5)), budget)
            with cond:
                while used[0] + need > budget:
                    cond.wait()
                used[0] += need
            try:
                return run_harness(h, o)
            finally:
                with cond:
                    used[0] -= need
                    cond.notify_all()

        with cf.ThreadPoolExecutor(max_workers=jobs) as ex:
            futs = {}
            for h in sorted(hs, key=lambda h: -harness_opts(cfg, h["pretty_name"].split("::")[-1], tier).get("mem_gb", 5)):
                nm = h["pretty_name"].split("::")[-1]
                o = harness_opts(cfg, nm, tier)
                o["list_functions"] = True
                futs[ex.submit(guarded, h, o)] = nm
            for fu in cf.as_completed(futs):
                r = fu.result()
                results.append(r)
                log("[%s] %-44s %-10s checks=%d failed=%d covers=%d/%d wall=%.1fs solver=%.1fs" % (
                    pid, r["harness"], r["status"], r["checks"], len(r["failed"]), r["covers_sat"],
                    r["covers_total"], r["wall_s"], r["solver_s"]))
        results.sort(key=lambda r: r["harness"])
        known = load_known()
        inconclusive = []
        violations = []
        known_hits = []
        for r in results:
            if r["status"] == "ok":
                continue
            if r["status"] in ("failed",):
                unknown = []
                for ent in r["failed"]:
                    k = match_known(known, pid, r["harness"], ent)
                    if k:
                        known_hits.append((k, r["harness"], ent))
                    else:
                        unknown.append(ent)
                if unknown:
                    violations.append((r, unknown))
                # other soundness problems in the same harness still count
                if r["unwind_failed"] and not unknown:
                    pass
            else:
                inconclusive.append(r)
        for k, hn, ent in known_hits:
            lines.append("KNOWN-FINDING: property=%s %s [harness %s: %s at %s]" % (
                pid, k.get("what", ""), hn, ent["description"][:100], ent["where"]))
        # ---- replay every unknown failure natively before reporting
        replay_dir_root = os.path.join(os.environ.get("VERIF_REPLAY_ROOT") or os.path.join(VERIF, "replays"), pid)
        reproduced = []
        if violations:
            shutil.rmtree(replay_dir_root, ignore_errors=True)
        MAX_REPLAY = int(os.environ.get("VERIF_MAX_REPLAY", "4"))
        pending = []
        for r, unknown in violations:
            hn = r["harness"]
            rd = os.path.join(replay_dir_root, hn)
            os.makedirs(rd, exist_ok=True)
            with open(os.path.join(rd, "cbmc_failed_checks.json"), "w") as f:
                json.dump(dict(harness=hn, failed=r["failed"], cbmc_cmd=r.get("cbmc_cmd")), f, indent=1)
            if no_replay:
                reproduced.append((r, unknown, rd, "replay skipped (--no-replay)"))
                continue
            if len(pending) >= MAX_REPLAY:
                r["status"] = "failed-not-replayed"
                r["detail"] += "failed in CBMC; replay budget (%d harnesses) used by other failing harnesses of this run" % MAX_REPLAY
                continue
            o = harness_opts(cfg, hn, tier)
            if o.get("input_free"):
                # the harness draws no symbolic input (no kani::any): the native replay is the harness itself run as a test
                tname = "kani_concrete_playback_%s_direct" % hn
                with open(os.path.join(dst, r.get("src")), "a") as f:
                    f.write("\n// ---- replay of an input-free harness ----\n#[test]\nfn %s() {\n    let concrete_vals: Vec<Vec<u8>> = vec![];\n"
                            "    kani::concrete_playback_run(concrete_vals, %s);\n}\n" % (tname, hn))
                tests, pout = [tname], ""
            else:
                tests, pout = playback_generate(dst, cfg, r["pretty"], timeout=max(2 * o.get("timeout", 600), 600), src_rel=r.get("src"))
            if not tests:
                log("[%s] %s: no concrete playback test generated\n%s" % (pid, hn, pout[-1500:]))
                r["status"] = "unreplayed"
                r["detail"] += "counterexample could not be turned into a playback test"
                inconclusive.append(r)
                continue
            pending.append((r, unknown, rd, tests))
        if pending:
            all_tests = [t for _r, _u, _rd, ts in pending for t in ts]
            runs = {}
            for release in (False, True):
                runs["release" if release else "dev"] = playback_run(dst, cfg, all_tests, release)
            for r, unknown, rd, tests in pending:
                hn = r["harness"]
                # the harness file(s) with the generated tests are the replay artefact
                for rel in added:
                    p = os.path.join(dst, rel)
                    if os.path.exists(p) and any(t in open(p).read() for t in tests):
                        shutil.copy(p, os.path.join(rd, os.path.basename(rel)))
                ok_any = False
                rp = {}
                for prof, pr in runs.items():
                    mine_failed = [t for t in pr["failed"] if any(t.endswith(x) for x in tests)]
                    mine_passed = [t for t in pr["passed"] if any(t.endswith(x) for x in tests)]
                    crashed = pr["crashed"] and len(pending) == 1
                    rp[prof] = dict(failed=mine_failed, passed=mine_passed, crashed=crashed, built=pr["built"],
                                    tail=pr["tail"][-1500:])
                    if mine_failed or crashed:
                        ok_any = True
                with open(os.path.join(rd, "replay.json"), "w") as f:
                    json.dump(dict(property=pid, harness=hn, tests=tests, overlays=cfg["overlays"],
                                   features=cfg.get("features", []), native=rp,
                                   how="./check %s --replay %s" % (pid, rd)), f, indent=1)
                if ok_any:
                    reproduced.append((r, unknown, rd, "reproduced natively"))
                else:
                    r["status"] = "unreproduced"
                    r["detail"] += "solver counterexample did not reproduce natively (stub/model imprecision?) " + \
                        " | ".join(runs["dev"]["tail"].splitlines()[-6:])
                    inconclusive.append(r)
        for r, unknown, rd, how in reproduced:
            lines.append("VIOLATION property=%s replay=%s" % (pid, rd))
            for ent in unknown[:5]:
                lines.append("  harness=%s check=%s :: %s @ %s (%s)" % (r["harness"], ent["property"],
                                                                      " ".join(ent["description"].split())[:160], ent["where"], how))
        if reproduced:
            exit_code = 1
        elif inconclusive:
            exit_code = 2
        for r in inconclusive:
            lines.append("INCONCLUSIVE property=%s harness=%s status=%s %s" % (
                pid, r["harness"], r["status"], (r["detail"] or "").strip().replace("\n", " | ")[:600]))
            for ent in (r["unwind_failed"] + r["unsupported_failed"] + r["covers_unsat"])[:6]:
                lines.append("    %s :: %s @ %s" % (ent["property"], ent["description"][:120], ent["where"]))
        # ---- evidence
        fn_union = sorted(set(f for r in results for f in r.get("functions", [])))
        ok = [r for r in results if r["status"] == "ok"]
        n_checks = sum(r["checks"] for r in results)
        n_vcc = sum((r["vccs"] or [0, 0])[0] for r in results)
        samples = []
        for r in results:
            doc = cfg.get("harness_doc", {}).get(r["harness"]) or PROPS.harness_doc(pid, r["harness"])
            samples.append(dict(harness=r["harness"], status=r["status"], unwind=r["unwind"],
                                stubs=["%s -> %s" % s for s in r["stubs"]],
                                cbmc_properties=r["checks"], failed=len(r["failed"]),
                                covers="%d/%d" % (r["covers_sat"], r["covers_total"]),
                                vccs=r["vccs"], symex_s=r["symex_s"], solver_s=r["solver_s"],
                                wall_s=r["wall_s"], symbolic_inputs_and_bounds=doc))
        ev["coverage"] = dict(
            states=max(1, n_vcc), transitions=max(1, n_checks),
            traces_validated_against_impl=len(reproduced) + len([r for r in inconclusive if r["status"] == "unreproduced"]),
            evaluations=n_checks, distinct_nontrivial=len(ok),
            rule=("one evaluation = one CBMC property (assertion, MIR overflow/bounds/unwrap check, unwinding "
                  "assertion) decided by the SAT solver over all values of the harness's symbolic inputs; "
                  "distinct_nontrivial = harnesses that passed AND whose vacuity covers were all satisfied; "
                  "states = verification conditions generated by symbolic execution, transitions = CBMC properties"),
            samples=samples,
            harnesses=len(results), harnesses_ok=len(ok),
            functions_encoded=fn_union,
            engine="kani 0.68.0 (kani-compiler MIR->goto) + CBMC 6.11.0 + CaDiCaL; flags: " + " ".join(CBMC_FLAGS),
            bounds=cfg.get("bounds", ""), outside_claim=cfg.get("outside", ""),
            solver_s_total=round(sum(r["solver_s"] for r in results), 1),
            symex_s_total=round(sum((r["symex_s"] or 0) for r in results), 1),
            build_s=round(bdt, 1),
            known_findings_hit=[k.get("id") for k, _h, _e in known_hits],
            exhaustive=False,
            explanation=cfg.get("explanation", ""),
        )
        ev["assumptions"] = cfg.get("assumptions", []) + PROPS.COMMON_ASSUMPTIONS
        ev["violations"] = len(reproduced)
        extra = cfg.get("post")
        if extra:
            rc2, l2, cov2 = extra(dst, tier, seed, ev)
            lines += l2
            ev["coverage"].update(cov2)
            if rc2 == 1:
                exit_code = 1
                ev["violations"] += 1
            elif rc2 == 2 and exit_code == 0:
                exit_code = 2
        write_evidence(pid, ev, t_start)
        for l in lines:
            print(l)
        print("[%s] tier=%s harnesses=%d ok=%d violations=%d inconclusive=%d known=%d wall=%.0fs exit=%d" % (
            pid, tier, len(results), len(ok), ev["violations"], len(inconclusive), len(known_hits),
            time.time() - t_start, exit_code))
        return exit_code
    finally:
        if keep:
            log("scratch kept: " + scratch)
        else:
            shutil.rmtree(scratch, ignore_errors=True)


def write_evidence(pid, ev, t_start):
    ev["wall_s"] = round(time.time() - t_start, 1)
    evdir = os.environ.get("VERIF_EVIDENCE_DIR") or os.path.join(VERIF, "evidence")
    os.makedirs(evdir, exist_ok=True)
    p = os.path.join(evdir, pid + ".json")
    with open(p + ".tmp", "w") as f:
        json.dump(ev, f, indent=1)
    os.replace(p + ".tmp", p)


def do_replay(pid, path):
    cfg = PROPS.PROPS[pid]
    with open(os.path.join(path, "replay.json")) as f:
        rj = json.load(f)
    scratch = make_scratch(pid + "-replay")
    try:
        dst = snapshot_repo(scratch)
        extra = {}
        for module, fname in cfg["overlays"]:
            p = os.path.join(path, fname)
            if os.path.exists(p):
                extra[(module, fname)] = p
        overlay(dst, cfg, extra)
        bad = False
        for release in (False, True):
            pr = playback_run(dst, cfg, rj["tests"], release)
            print("replay %s: failed=%s passed=%s crashed=%s" % ("release" if release else "dev", pr["failed"], pr["passed"], pr["crashed"]))
            if not pr["built"]:
                print(pr["tail"])
            if pr["failed"] or pr["crashed"]:
                bad = True
                print(pr["tail"][-1500:])
        if bad:
            print("VIOLATION property=%s replay=%s" % (pid, path))
            return 1
        return 0
    finally:
        shutil.rmtree(scratch, ignore_errors=True)


def do_setup():
    """Warm the dependency build of the Kani toolchain into /verif/.cache/target (offline)."""
    scratch = make_scratch("setup")
    try:
        dst = os.path.join(scratch, "repo")
        os.makedirs(dst)
        sh(["rsync", "-a", "--exclude", "/target", "--exclude", "/.git", REPO + "/", dst + "/"])
        os.makedirs(os.path.join(dst, "src", "layer"), exist_ok=True)
        with open(os.path.join(dst, "src", "lib.rs"), "a") as f:
            f.write("\n#[cfg(kani)]\nmod vk_warm { #[kani::proof] fn warm() { let x: u8 = kani::any(); kani::cover!(x == 1); } }\n")
        rc, out = sh(["cargo", "kani", "--only-codegen"] + KANI_BUILD_FLAGS + ["--features", "utils"], cwd=dst, timeout=1800)
        if rc != 0:
            print(out[-3000:])
            return 1
        rc, out = sh(["cargo", "kani", "--only-codegen"] + KANI_BUILD_FLAGS, cwd=dst, timeout=1800)
        if rc != 0:
            print(out[-3000:])
            return 1
        for release in (False, True):
            env = dict(BASE_ENV)
            env["CARGO_ENCODED_RUSTFLAGS"] = PLAYBACK_RUSTFLAGS + ("\x1f-Cdebug-assertions=on" if release else "")
            env["RUSTC"] = os.path.join(KANI_HOME, "bin/kani-compiler")
            cmd = [os.path.join(KANI_HOME, "toolchain/bin/cargo"), "test", "--lib", "--no-run", "--features", "utils",
                   "--target", "x86_64-unknown-linux-gnu", "-Zhost-config", "-Ztarget-applies-to-host",
                   '--config=host.rustflags=["--cfg=kani_host"]'] + (["--release"] if release else [])
            rc, out = sh(cmd, cwd=dst, env=env, timeout=1800)
            if rc != 0:
                print("warning: could not warm the playback build:\n" + out[-1500:])
        shutil.rmtree(CACHE, ignore_errors=True)
        os.makedirs(CACHE)
        shutil.move(os.path.join(dst, "target"), os.path.join(CACHE, "target"))
        print("setup ok: warm target at %s" % CACHE)
        return 0
    finally:
        shutil.rmtree(scratch, ignore_errors=True)


def main():
    ap = argparse.ArgumentParser()
    ap.add_argument("property")
    ap.add_argument("--tier", default=os.environ.get("VERIF_TIER", "quick"), choices=["quick", "thorough"])
    ap.add_argument("--replay")
    ap.add_argument("--only")
    ap.add_argument("--keep", action="store_true")
    ap.add_argument("--jobs", type=int)
    ap.add_argument("--no-replay", action="store_true")
    a = ap.parse_args()
    if a.property == "setup":
        sys.exit(do_setup())
    pid = a.property.upper()
    if pid not in PROPS.PROPS:
        print("unknown or not-applicable property " + pid)
        sys.exit(2)
    seed = int(os.environ.get("VERIF_SEED", "0") or 0)
    if a.replay:
        sys.exit(do_replay(pid, a.replay))
    sys.exit(do_check(pid, a.tier, seed, a.only, a.keep, a.jobs, a.no_replay))


if __name__ == "__main__":
    main()
