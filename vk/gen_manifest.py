#!/usr/bin/env python3
"""Regenerates /verif/MANIFEST.json from vk/props.py (claimed checks) and vk/na.py (not applicable)."""
import json, os, sys
VERIF = os.path.dirname(os.path.dirname(os.path.abspath(__file__)))
sys.path.insert(0, os.path.join(VERIF, "vk"))
import props, na

ALL = [json.loads(l)["id"] for l in open(os.path.join(VERIF, "properties.jsonl"))]
checks = []
for pid in ALL:
    if pid not in props.PROPS:
        continue
    c = props.PROPS[pid]
    checks.append(dict(
        property_id=pid,
        quick_cmd="./check %s --tier quick" % pid,
        thorough_cmd="./check %s --tier thorough" % pid,
        evidence_file="/verif/evidence/%s.json" % pid,
        replay_cmd_template="./check %s --replay {path}" % pid,
        engine="kani-cbmc",
        level_claimed=dict(category="model_checking",
                           text=c.get("level_text") or ("Bounded model checking of the compiled crate code (Kani 0.68 -> CBMC 6.11, CaDiCaL): "
                                 "every listed harness input is symbolic, the SAT solver decides all values within the stated bounds; "
                                 "bounds: " + c.get("bounds", "")),
                           design_ref="DESIGN.md section 2, " + pid),
        level_note=("Trusted: kani-compiler's MIR->goto translation, CBMC, CaDiCaL, the harness specifications and the listed stubs. "
                    "Outside the claim: " + c.get("outside", "")),
        technique=c.get("technique", "SMT/SAT-based bounded model checking of the real Rust code (Kani proof harnesses over kani::any(), CBMC back end), counterexamples replayed natively"),
    ))
na_list = [dict(property_id=p, reason=na.NA[p]) for p in ALL if p not in props.PROPS]
missing = [p for p in ALL if p not in props.PROPS and p not in na.NA]
assert not missing, missing
m = dict(
    version=1,
    setup_cmd="./check setup",
    hooks=dict(guard="cfg(kani)", enable="no source hooks: harness modules are overlaid (append-only `#[cfg(kani)] mod ...;` lines) onto a scratch copy of /repo's working tree at check time and compiled by kani-compiler, which is the only compiler that sets cfg(kani)",
               baseline_off_cmd="cd /repo && cargo test --workspace --no-fail-fast --offline",
               source_commits=[], add_only=True),
    engines=[dict(name="kani-cbmc", path="/verif/vk/driver.py", serves_properties=[c["property_id"] for c in checks],
                  kind_free_text="Kani 0.68.0 proof harnesses (harness/*) symbolically executed by CBMC 6.11.0 + CaDiCaL; driver snapshots /repo, overlays harnesses, runs the goto pipeline per harness in parallel, replays counterexamples natively via Kani concrete playback")],
    checks=checks,
    notes="Exit codes: 0 held within bounds, 1 VIOLATION (reproduced natively), 2 INCONCLUSIVE (harness build failure against an edited tree, timeout, OOM, vacuity cover unsatisfied, unreproduced counterexample).",
    not_applicable=na_list,
)
json.dump(m, open(os.path.join(VERIF, "MANIFEST.json"), "w"), indent=1)
print("MANIFEST: %d checks, %d not_applicable" % (len(checks), len(na_list)))
