#!/usr/bin/env python3
"""Runs the registered checks against each seeded change (seeded/<id>/patch.diff) applied to a scratch clone of
/repo (VERIF_REPO), records which check catches it in seeded/<id>/meta.json."""
import json, os, subprocess, sys, time, shutil
VERIF = os.path.dirname(os.path.dirname(os.path.abspath(__file__)))
CLONE = os.environ.get("CAMPAIGN_CLONE", "/var/tmp/asefile-seedrepo")
ALT = {"C01-A": ["C11"], "C03-B": ["C02"], "C17-B": ["C17", "C02"], "C09-B": ["C02"], "C02-B": ["C09"], "C05-A": ["C11"], "C07-A": ["C02"], "C07-B": ["C15"], "C16-A": ["C08"], "C16-B": ["C11"], "C19-A": ["C02"], "C19-B": ["C06"], "C13-B": ["C13"], "C12-A": ["C04"], "C12-E": ["C06", "C05"], "C14-E": ["C13"], "C11-D": ["C01"]}

def sh(cmd, **kw):
    return subprocess.run(cmd, stdout=subprocess.PIPE, stderr=subprocess.STDOUT, text=True, **kw)

def fresh_clone():
    shutil.rmtree(CLONE, ignore_errors=True)
    sh(["git", "clone", "-q", "/repo", CLONE])

def run(seed, pid, tier, jobs):
    env = dict(os.environ, VERIF_REPO=CLONE, VERIF_MAX_REPLAY="2", VERIF_EVIDENCE_DIR="/var/tmp/asefile-seed-evidence", VERIF_REPLAY_ROOT="/var/tmp/asefile-seed-replays/" + seed)
    t0 = time.time()
    p = sh([os.path.join(VERIF, "check"), pid, "--tier", tier, "--jobs", str(jobs)], env=env, cwd=VERIF)
    viol = [l for l in p.stdout.splitlines() if l.startswith("VIOLATION") or l.startswith("  harness=") or l.startswith("  palette mapper")]
    inc = [l for l in p.stdout.splitlines() if l.startswith("INCONCLUSIVE")]
    return dict(check=pid, tier=tier, exit=p.returncode, wall_s=round(time.time() - t0), violation_lines=viol[:8], inconclusive=[x[:200] for x in inc[:4]])

def main():
    seeds = sys.argv[1:] or sorted(os.listdir(os.path.join(VERIF, "seeded")))
    jobs = int(os.environ.get("CAMPAIGN_JOBS", "8"))
    for s in seeds:
        d = os.path.join(VERIF, "seeded", s)
        meta = json.load(open(os.path.join(d, "meta.json")))
        fresh_clone()
        a = sh(["git", "-C", CLONE, "apply", os.path.join(d, "patch.diff")])
        if a.returncode != 0:
            meta["detection_status"] = "patch does not apply to the current /repo: " + a.stdout[:200]
            json.dump(meta, open(os.path.join(d, "meta.json"), "w"), indent=1)
            print(s, "APPLY-FAILED", flush=True)
            continue
        runs = []
        caught = False
        for pid in [meta["property"]] + [x for x in ALT.get(s, []) if x != meta["property"]]:
            for tier in ("quick", "thorough"):
                r = run(s, pid, tier, jobs)
                runs.append(r)
                print(s, pid, tier, "exit", r["exit"], r["wall_s"], "s", flush=True)
                if r["exit"] == 1:
                    caught = True
                    break
            if caught:
                break
        meta["runs"] = runs
        meta["detected_by"] = ["%s %s" % (r["check"], r["tier"]) for r in runs if r["exit"] == 1]
        meta["detection_status"] = "caught" if caught else "missed"
        json.dump(meta, open(os.path.join(d, "meta.json"), "w"), indent=1)
    shutil.rmtree(CLONE, ignore_errors=True)

main()
