#!/bin/sh
# usage: confirm_seed.sh <seed dir with patch.diff + demo_x.rs> <features or ''>
# Confirms a seeded change in a scratch clone: existing suite passes with it, its demo fails with it and passes without.
d=$1; feat=$2
c=/var/tmp/asefile-confirm-$$
rm -rf $c; git clone -q /repo $c || exit 2
export CARGO_NET_OFFLINE=true CARGO_TARGET_DIR=/var/tmp/asefile-confirm-target
demo=$(ls $d/demo_*.rs | head -1); name=$(basename $demo .rs)
cp $demo $c/tests/$name.rs
cd $c
fa=""; [ -n "$feat" ] && fa="--features $feat"
clean=$(cargo test --offline $fa --test $name 2>&1 | grep "test result" | head -1)
git apply $d/patch.diff || { echo "APPLY FAILED"; exit 2; }
suite=$(cargo test --offline $fa --lib 2>&1 | grep "test result" | head -1)
mut=$(cargo test --offline $fa --test $name 2>&1 | grep "test result" | head -1)
echo "RESULT $(basename $d) | clean-demo: $clean | mutated-suite: $suite | mutated-demo: $mut"
cd /; rm -rf $c
