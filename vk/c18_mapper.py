#!/usr/bin/env python3
"""C18, palette-mapper half: PaletteMapper::new / lookup / to_indexed_image decided over their MIR with z3 (and the
queries re-checked with cvc5). usage: python3-vt c18_mapper.py <mir.txt> <src dir> <tier> <out.json>"""
import sys, os, re, json, time, subprocess, glob
import z3
sys.path.insert(0, os.path.dirname(os.path.abspath(__file__)))
import mirsmt as M
from mirsmt import Int, Struct, Opt, Ref, Entries, Image, State, VecV, Unsupported


def bv(name, w):
    return z3.BitVec(name, w)


def mk_inputs(ex, n, tag, concrete=None):
    """symbolic inputs, or (concrete = dict(entries, failure, transparent)) the same shapes over constants"""
    global bv
    if concrete is not None:
        vals = {}
        for i, e in enumerate(concrete["entries"]):
            vals["%s_idx%d" % (tag, i)] = e[0]
            for c in range(4):
                vals["%s_e%d_c%d" % (tag, i, c)] = e[1 + c]
        vals[tag + "_failure"] = concrete["failure"]
        vals[tag + "_transparent"] = concrete["transparent"] or 0
        sym_bv = bv
        bv = lambda name, w: z3.BitVecVal(vals[name], w)
        try:
            r = mk_inputs(ex, n, tag)
        finally:
            bv = sym_bv
        palette, options, raw, failure, t_some, t_val, pre = r
        of = ex.structs.get("MappingOptions")
        t_some = z3.BoolVal(concrete["transparent"] is not None)
        options = Struct("MappingOptions", [Int(failure, False) if f == "failure" else Opt(t_some, Int(t_val, False)) for f in of])
        return palette, options, raw, failure, t_some, t_val, []
    structs = ex.structs
    ent_fields = structs.get("ColorPaletteEntry")
    if not ent_fields or "id" not in ent_fields or "rgba8" not in ent_fields:
        raise Unsupported("ColorPaletteEntry { id, rgba8, .. } not found in the source")
    if structs.get("ColorPalette") != ["entries"]:
        raise Unsupported("ColorPalette { entries } not found in the source")
    items, raw = [], []
    for i in range(n):
        idx = bv("%s_idx%d" % (tag, i), 32)
        rgba = [bv("%s_e%d_c%d" % (tag, i, c), 8) for c in range(4)]
        fields = []
        for f in ent_fields:
            if f == "id":
                fields.append(Int(idx, False))
            elif f == "rgba8":
                fields.append([Int(c, False) for c in rgba])
            else:
                fields.append(Opt(z3.BoolVal(False), None))
        items.append((Int(idx, False), Struct("ColorPaletteEntry", fields)))
        raw.append((idx, rgba))
    palette = Struct("ColorPalette", [Entries(items)])
    failure = bv(tag + "_failure", 8)
    t_some = z3.Bool(tag + "_transparent_is_some")
    t_val = bv(tag + "_transparent", 8)
    of = structs.get("MappingOptions")
    if not of or set(of) != {"failure", "transparent"}:
        raise Unsupported("MappingOptions { failure, transparent } not found in the source")
    options = Struct("MappingOptions", [Int(failure, False) if f == "failure" else Opt(t_some, Int(t_val, False)) for f in of])
    pre = [z3.Distinct(*[r[0] for r in raw])] if n > 1 else []
    return palette, options, raw, failure, t_some, t_val, pre


def lookup_spec(raw, failure, t_some, t_val, q, got):
    r, g, b, a = q
    same = [z3.And(e[1][0] == r, e[1][1] == g, e[1][2] == b) for e in raw]
    below = z3.Or([z3.And(s, z3.ULT(e[0], 256)) for s, e in zip(same, raw)] + [z3.BoolVal(False)])
    above = z3.Or([z3.And(s, z3.UGE(e[0], 256)) for s, e in zip(same, raw)] + [z3.BoolVal(False)])
    ok = z3.Or([z3.And(s, z3.ULT(e[0], 256), z3.ZeroExt(24, got) == e[0]) for s, e in zip(same, raw)] + [z3.BoolVal(False)])
    opaque = z3.If(z3.And(below, z3.Not(above)), ok, z3.If(z3.Not(below), got == failure, z3.Or(ok, got == failure)))
    return z3.If(a != 255, got == z3.If(t_some, t_val, failure), opaque)


class Checker:
    def __init__(self):
        self.queries, self.solver_s, self.cvc5_checked, self.cvc5_disagree = 0, 0.0, 0, 0
        self.smt_dir = None

    def sat(self, conds, label):
        s = z3.Solver()
        s.set("timeout", 120000)
        s.add(*conds)
        t0 = time.time()
        r = s.check()
        self.solver_s += time.time() - t0
        self.queries += 1
        if self.cvc5_checked < 40:
            # second opinion on the same query text
            txt = "(set-logic ALL)\n" + s.to_smt2()
            try:
                p = subprocess.run(["cvc5", "--lang", "smt2", "--tlimit=60000"], input=txt, stdout=subprocess.PIPE, stderr=subprocess.STDOUT, text=True, timeout=90)
                out = p.stdout.strip().splitlines()[0] if p.stdout.strip() else ""
                if out in ("sat", "unsat"):
                    self.cvc5_checked += 1
                    if out != str(r):
                        self.cvc5_disagree += 1
            except Exception:
                pass
        if r == z3.unknown:
            raise Unsupported("solver returned unknown for " + label)
        return (s.model() if r == z3.sat else None)


def val(m, x):
    return m.eval(x, model_completion=True).as_long()


def check_lookup(fns, structs, n, chk, out):
    ex = M.Exec(fns, structs)
    new = [f for k, f in fns.items() if re.search(r"util::<impl .*>::new$", k) and "PaletteMapper" in f.ret]
    look = [f for k, f in fns.items() if re.search(r"util::<impl .*>::lookup$", k)]
    if len(new) != 1 or len(look) != 1:
        raise Unsupported("PaletteMapper::new / lookup not found in the MIR")
    palette, options, raw, failure, t_some, t_val, pre = mk_inputs(ex, n, "p")
    st = State({("in", 0): palette}, list(pre))
    q = [bv("q_" + c, 8) for c in "rgba"]
    for st1, mapper in ex.run(new[0], [Ref(("in", 0)), options], st):
        st1.heap[("in", 1)] = mapper
        for st2, got in ex.run(look[0], [Ref(("in", 1))] + [Int(c, False) for c in q], st1):
            m = chk.sat(st2.pc + [z3.Not(lookup_spec(raw, failure, t_some, t_val, q, got.bv))], "lookup spec n=%d" % n)
            if m is not None:
                return dict(kind="lookup", n=n, entries=[[val(m, e[0])] + [val(m, c) for c in e[1]] for e in raw],
                            failure=val(m, failure), transparent=(val(m, t_val) if z3.is_true(m.eval(t_some, model_completion=True)) else None),
                            query=[val(m, c) for c in q], got=val(m, got.bv)), ex
    for pc, cond, msg in ex.obligations:
        m = chk.sat(pc + [z3.Not(cond)], "panic freedom")
        if m is not None:
            return dict(kind="panic", n=n, what=msg, entries=[[val(m, e[0])] + [val(m, c) for c in e[1]] for e in raw],
                        failure=val(m, failure), transparent=(val(m, t_val) if z3.is_true(m.eval(t_some, model_completion=True)) else None),
                        query=[val(m, c) for c in q], got=None), ex
    return None, ex


def check_image(fns, structs, n, w, h, chk):
    ex = M.Exec(fns, structs)
    new = [f for k, f in fns.items() if re.search(r"util::<impl .*>::new$", k) and "PaletteMapper" in f.ret]
    toi = [f for k, f in fns.items() if k == "to_indexed_image" or k.endswith("util::to_indexed_image")]
    if len(new) != 1 or len(toi) != 1:
        raise Unsupported("to_indexed_image not found in the MIR")
    ex.current_outer = toi[0].name
    palette, options, raw, failure, t_some, t_val, pre = mk_inputs(ex, n, "p")
    px = [[bv("px%d_c%d" % (i, c), 8) for c in range(4)] for i in range(w * h)]
    image = Image(Int(z3.BitVecVal(w, 32), False), Int(z3.BitVecVal(h, 32), False),
                  [Struct("Rgba", [[Int(c, False) for c in p]]) for p in px])
    st = State({("in", 0): palette}, list(pre))
    for st1, mapper in ex.run(new[0], [Ref(("in", 0)), options], st):
        st1.heap[("in", 1)] = mapper
        for st2, res in ex.run(toi[0], [image, Ref(("in", 1))], st1):
            dims, vec = res.fields
            if not isinstance(vec, VecV) or len(vec.items) != w * h:
                return dict(kind="image", n=n, w=w, h=h, what="result does not have one index per pixel"), ex
            spec = [dims.fields[0].bv == w, dims.fields[1].bv == h]
            for i in range(w * h):
                spec.append(lookup_spec(raw, failure, t_some, t_val, px[i], vec.items[i].bv))
            m = chk.sat(st2.pc + [z3.Not(z3.And(spec))], "to_indexed_image spec")
            if m is not None:
                return dict(kind="image", n=n, w=w, h=h, entries=[[val(m, e[0])] + [val(m, c) for c in e[1]] for e in raw],
                            failure=val(m, failure), transparent=(val(m, t_val) if z3.is_true(m.eval(t_some, model_completion=True)) else None),
                            pixels=[[val(m, c) for c in p] for p in px], got=[val(m, v.bv) for v in vec.items],
                            dims=[val(m, dims.fields[0].bv), val(m, dims.fields[1].bv)]), ex
    return None, ex


SELF_VECTORS = dict(
    entries=[[0, 1, 2, 3, 255], [5, 9, 9, 9, 255], [255, 7, 7, 7, 255], [256, 4, 4, 4, 255], [1000, 6, 6, 6, 255]],
    options=[[77, 3], [200, None]],
    queries=[[1, 2, 3, 255], [9, 9, 9, 255], [7, 7, 7, 255], [4, 4, 4, 255], [6, 6, 6, 255], [8, 8, 8, 255], [1, 2, 3, 0], [9, 9, 9, 254], [3, 2, 1, 255]],
)


def self_vectors_encoded(fns, structs):
    """the encoding evaluated on the fixed concrete vectors (compared with the native code by the caller)"""
    out = []
    new = [f for k, f in fns.items() if re.search(r"util::<impl .*>::new$", k) and "PaletteMapper" in f.ret][0]
    look = [f for k, f in fns.items() if re.search(r"util::<impl .*>::lookup$", k)][0]
    for failure, transparent in SELF_VECTORS["options"]:
        for q in SELF_VECTORS["queries"]:
            ex = M.Exec(fns, structs)
            palette, options, raw, fz, tsz, tvz, pre = mk_inputs(ex, len(SELF_VECTORS["entries"]), "s",
                                                                 dict(entries=SELF_VECTORS["entries"], failure=failure, transparent=transparent))
            st = State({("in", 0): palette}, [])
            got = None
            for st1, mapper in ex.run(new, [Ref(("in", 0)), options], st):
                st1.heap[("in", 1)] = mapper
                for st2, g in ex.run(look, [Ref(("in", 1))] + [Int(z3.BitVecVal(c, 8), False) for c in q], st1):
                    pc = z3.simplify(z3.And(st2.pc + [z3.BoolVal(True)]))
                    if z3.is_true(pc):
                        got = z3.simplify(g.bv).as_long()
            out.append(got)
    return out


def main():
    mir, src, tier, outp = sys.argv[1:5]
    t0 = time.time()
    res = dict(status="ok", counterexample=None, detail="", functions=[], models=[], queries=0, solver_s=0.0, bounds="")
    try:
        fns = M.parse_mir(open(mir).read())
        structs = M.parse_structs([open(p).read() for p in glob.glob(os.path.join(src, "*.rs"))])
        chk = Checker()
        nmax = 3 if tier == "quick" else 4
        used_f, used_m = set(), set()
        ce = None
        for n in range(0, nmax + 1):
            ce, ex = check_lookup(fns, structs, n, chk, res)
            used_f |= ex.used_fns
            used_m |= ex.used_models
            if ce:
                break
        if not ce:
            for (n, w, h) in ([(2, 2, 1)] if tier == "quick" else [(2, 2, 1), (1, 2, 2), (2, 1, 3)]):
                ce, ex = check_image(fns, structs, n, w, h, chk)
                used_f |= ex.used_fns
                used_m |= ex.used_models
                if ce:
                    break
        res["self_vectors"] = self_vectors_encoded(fns, structs)
        res.update(functions=sorted(used_f), models=sorted(used_m), queries=chk.queries, solver_s=round(chk.solver_s, 2),
                   cvc5_rechecked=chk.cvc5_checked, cvc5_disagree=chk.cvc5_disagree,
                   bounds="palettes of 0..%d entries with symbolic pairwise-distinct indices (all of u32) and symbolic RGBA, visited in "
                          "an arbitrary order; all mapping options; all query colours; to_indexed_image on %s" % (
                              nmax, "a 2x1 image over a 2-entry palette" if tier == "quick" else "2x1, 2x2 and 1x3 images over 1- and 2-entry palettes"))
        if chk.cvc5_disagree:
            res["status"] = "unsupported"
            res["detail"] = "z3 and cvc5 disagree on %d queries" % chk.cvc5_disagree
        elif ce:
            res["status"] = "violation"
            res["counterexample"] = ce
    except Unsupported as e:
        res["status"] = "unsupported"
        res["detail"] = str(e)
    res["wall_s"] = round(time.time() - t0, 1)
    json.dump(res, open(outp, "w"), indent=1)
    print(res["status"], res["detail"])


if __name__ == "__main__":
    main()
