#!/usr/bin/env python3
"""Runs registered quick checks against behaviour-preserving refactorings (benign/<id>/patch.diff) applied to a scratch
clone of /repo: the expected outcome is exit 0 (or 2 when a harness no longer compiles), never a VIOLATION."""
import json, os, subprocess, sys, time, shutil
VERIF = os.path.dirname(os.path.dirname(os.path.abspath(__file__)))
CLONE = "/var/tmp/asefile-benignrepo"
PLAN = {"R1-A": ["C04", "C13", "C10", "C15"], "R1-B": ["C02", "C04", "C10"], "R2-A": ["C02", "C06"], "R2-B": ["C03", "C17"],
        "R3-A": ["C08", "C05"], "R3-B": ["C11", "C16"]}
def sh(cmd, **kw):
    return subprocess.run(cmd, stdout=subprocess.PIPE, stderr=subprocess.STDOUT, text=True, **kw)
res = {}
for rid in (sys.argv[1:] or sorted(PLAN)):
    shutil.rmtree(CLONE, ignore_errors=True)
    sh(["git", "clone", "-q", "/repo", CLONE])
    a = sh(["git", "-C", CLONE, "apply", os.path.join(VERIF, "benign", rid, "patch.diff")])
    if a.returncode != 0:
        print(rid, "APPLY-FAILED", a.stdout[:200], flush=True)
        continue
    res[rid] = []
    for pid in PLAN[rid]:
        env = dict(os.environ, VERIF_REPO=CLONE, VERIF_MAX_REPLAY="2", VERIF_EVIDENCE_DIR="/var/tmp/asefile-benign-evidence",
                   VERIF_REPLAY_ROOT="/var/tmp/asefile-benign-replays/" + rid)
        t0 = time.time()
        p = sh([os.path.join(VERIF, "check"), pid, "--tier", "quick", "--jobs", "8"], env=env, cwd=VERIF)
        lines = [l[:300] for l in p.stdout.splitlines() if l.startswith(("VIOLATION", "INCONCLUSIVE", "  harness="))]
        res[rid].append(dict(check=pid, exit=p.returncode, wall_s=round(time.time() - t0), lines=lines[:6]))
        print(rid, pid, "exit", p.returncode, round(time.time() - t0), "s", flush=True)
    json.dump(res[rid], open(os.path.join(VERIF, "benign", rid, "result.json"), "w"), indent=1)
shutil.rmtree(CLONE, ignore_errors=True)
