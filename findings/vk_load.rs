use asefile::AsepriteFile;
fn main() {
    for p in std::env::args().skip(1) {
        let data = std::fs::read(&p).unwrap();
        let r = std::panic::catch_unwind(|| AsepriteFile::read(&data[..]).map(|f| (f.width(), f.height(), f.num_frames(), f.num_layers())));
        match r {
            Ok(Ok(v)) => println!("{}: loaded {:?}", p, v),
            Ok(Err(e)) => println!("{}: error value: {}", p, e),
            Err(_) => println!("{}: PANIC", p),
        }
    }
}
