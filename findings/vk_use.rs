// example program used to confirm the C05 findings through the public API (see known_findings.json):
// loads each file and, if it loads, calls the image / tilemap / tileset accessors.
use asefile::AsepriteFile;
fn main() {
    for p in std::env::args().skip(1) {
        let data = std::fs::read(&p).unwrap();
        let r = std::panic::catch_unwind(|| match AsepriteFile::read(&data[..]) {
            Err(e) => format!("error value: {}", e),
            Ok(f) => {
                for fr in 0..f.num_frames() {
                    let _ = f.frame(fr).image();
                    for l in 0..f.num_layers() {
                        let _ = f.cel(fr, l).image();
                        if let Some(tm) = f.tilemap(l, fr) {
                            let _ = tm.image();
                            let t = tm.tile(0, 0).id();
                            let _ = tm.tileset().tile_image(t);
                            let _ = tm.tile(0x8000_0000, 0);
                            let _ = tm.tile_offsets();
                        }
                    }
                }
                for ts in f.tilesets().iter() {
                    let _ = ts.image();
                }
                String::from("loaded; all accessors returned")
            }
        });
        match r {
            Ok(s) => println!("{}: {}", p, s),
            Err(_) => println!("{}: PANIC", p),
        }
    }
}
