// counting global allocator: largest single request and peak live bytes during AsepriteFile::read
use asefile::AsepriteFile;
use std::alloc::{GlobalAlloc, Layout, System};
use std::sync::atomic::{AtomicUsize, Ordering::SeqCst};
static LIVE: AtomicUsize = AtomicUsize::new(0);
static PEAK: AtomicUsize = AtomicUsize::new(0);
static MAXREQ: AtomicUsize = AtomicUsize::new(0);
struct Counting;
unsafe impl GlobalAlloc for Counting {
    unsafe fn alloc(&self, l: Layout) -> *mut u8 {
        MAXREQ.fetch_max(l.size(), SeqCst);
        let p = System.alloc(l);
        if !p.is_null() {
            let live = LIVE.fetch_add(l.size(), SeqCst) + l.size();
            PEAK.fetch_max(live, SeqCst);
        }
        p
    }
    unsafe fn alloc_zeroed(&self, l: Layout) -> *mut u8 {
        MAXREQ.fetch_max(l.size(), SeqCst);
        let p = System.alloc_zeroed(l);
        if !p.is_null() {
            let live = LIVE.fetch_add(l.size(), SeqCst) + l.size();
            PEAK.fetch_max(live, SeqCst);
        }
        p
    }
    unsafe fn dealloc(&self, p: *mut u8, l: Layout) {
        LIVE.fetch_sub(l.size(), SeqCst);
        System.dealloc(p, l)
    }
}
#[global_allocator]
static A: Counting = Counting;
fn main() {
    for p in std::env::args().skip(1) {
        let data = std::fs::read(&p).unwrap();
        let base = LIVE.load(SeqCst);
        PEAK.store(base, SeqCst);
        MAXREQ.store(0, SeqCst);
        let r = AsepriteFile::read(&data[..]).map(|_| ());
        let bound = (64usize << 20) + 8192 * data.len();
        let peak = PEAK.load(SeqCst) - base;
        let maxreq = MAXREQ.load(SeqCst);
        println!("{}: {} bytes in, result {}, largest request {} B, peak live {} B, bound {} B => {}", p, data.len(),
            if r.is_ok() { "Ok" } else { "Err" }, maxreq, peak, bound, if maxreq > bound || peak > bound { "EXCEEDS" } else { "within" });
    }
}
