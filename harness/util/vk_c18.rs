//! C18 — utility helpers (feature `utils`): border extrusion and palette mapping.
use super::*;
use crate::palette::vkl::*;
use crate::vklib::*;
use image::Rgba;

fn extrude<const W: usize, const H: usize>() {
    let mut src = [[Rgba([0u8; 4]); W]; H];
    let mut raw = Vec::with_capacity(W * H * 4);
    for y in 0..H {
        for x in 0..W {
            let p = any_px();
            src[y][x] = p;
            raw.push(p.0[0]);
            raw.push(p.0[1]);
            raw.push(p.0[2]);
            raw.push(p.0[3]);
        }
    }
    let img = RgbaImage::from_raw(W as u32, H as u32, raw).unwrap();
    let out = extrude_border(img);
    assert!(out.width() == W as u32 + 2 && out.height() == H as u32 + 2, "(w+2) x (h+2)");
    for y in 0..H + 2 {
        for x in 0..W + 2 {
            let sx = if x == 0 { 0 } else if x - 1 > W - 1 { W - 1 } else { x - 1 };
            let sy = if y == 0 { 0 } else if y - 1 > H - 1 { H - 1 } else { y - 1 };
            assert!(px_eq(out.get_pixel(x as u32, y as u32), &src[sy][sx]), "pixel (x,y) == input(clamp(x-1), clamp(y-1))");
        }
    }
    kani::cover!(src[0][0].0[0] == 1 && src[H - 1][W - 1].0[3] == 2);
}
#[kani::proof]
#[kani::unwind(8)]
#[kani::stub(alloc::fmt::format, crate::vklib::empty_format)]
fn c18_q_extrude_2x2() {
    extrude::<2, 2>();
}
#[kani::proof]
#[kani::unwind(8)]
#[kani::stub(alloc::fmt::format, crate::vklib::empty_format)]
fn c18_q_extrude_1x1() {
    extrude::<1, 1>();
}
#[kani::proof]
#[kani::unwind(8)]
#[kani::stub(alloc::fmt::format, crate::vklib::empty_format)]
fn c18_t_extrude_3x1() {
    extrude::<3, 1>();
}
#[kani::proof]
#[kani::unwind(8)]
#[kani::stub(alloc::fmt::format, crate::vklib::empty_format)]
fn c18_t_extrude_1x3() {
    extrude::<1, 3>();
}

/// palette {1: red, 4: green, 300: blue} (concrete colours: they are hash-map keys), symbolic options, symbolic alpha,
/// query colour chosen symbolically among the three palette colours and one absent colour
#[kani::proof]
#[kani::unwind(10)]
#[kani::stub(alloc::fmt::format, crate::vklib::empty_format)]
fn c18_q_palette_mapper_lookup() {
    const RED: [u8; 4] = [200, 10, 10, 255];
    const GREEN: [u8; 4] = [10, 200, 10, 255];
    const BLUE: [u8; 4] = [10, 10, 200, 255];
    let pal = mk_palette(&[(1, RED), (4, GREEN), (300, BLUE)]);
    let failure: u8 = kani::any();
    let transparent: Option<u8> = if kani::any() { Some(kani::any()) } else { None };
    let m = PaletteMapper::new(&pal, MappingOptions { failure, transparent });
    let alpha: u8 = kani::any();
    let which: u8 = kani::any();
    kani::assume(which < 4);
    let q = [RED, GREEN, BLUE, [1, 2, 3, 255]][which as usize];
    let r = m.lookup(q[0], q[1], q[2], alpha);
    if alpha != 255 {
        assert!(r == transparent.unwrap_or(failure), "non-opaque -> configured transparent index, or failure index if none");
    } else {
        match which {
            0 => assert!(r == 1, "opaque palette colour below 256 -> an index with that RGB"),
            1 => assert!(r == 4),
            _ => assert!(r == failure, "colour only at an index >= 256, or absent -> failure index"),
        }
    }
    kani::cover!(alpha == 255 && which == 2);
    kani::cover!(alpha == 0 && transparent.is_none());
    core::mem::forget(m);
    core::mem::forget(pal);
}

/// to_indexed_image: dimensions and one index per pixel in row-major order (2x1 image)
#[kani::proof]
#[kani::unwind(10)]
#[kani::stub(alloc::fmt::format, crate::vklib::empty_format)]
fn c18_q_to_indexed_image() {
    const RED: [u8; 4] = [200, 10, 10, 255];
    const GREEN: [u8; 4] = [10, 200, 10, 255];
    let pal = mk_palette(&[(1, RED), (4, GREEN)]);
    let m = PaletteMapper::new(&pal, MappingOptions { failure: 9, transparent: Some(7) });
    let a0: u8 = kani::any();
    let swap: bool = kani::any();
    let (p0, p1) = if swap { (GREEN, RED) } else { (RED, GREEN) };
    let img = RgbaImage::from_raw(2, 1, vec![p0[0], p0[1], p0[2], a0, p1[0], p1[1], p1[2], 255]).unwrap();
    let ((w, h), data) = to_indexed_image(img, &m);
    assert!(w == 2 && h == 1 && data.len() == 2, "image dimensions and one index per pixel");
    let i0 = if swap { 4 } else { 1 };
    let i1 = if swap { 1 } else { 4 };
    assert!(data[0] == if a0 == 255 { i0 } else { 7 } && data[1] == i1, "row-major order");
    kani::cover!(swap && a0 == 255);
    core::mem::forget(m);
    core::mem::forget(pal);
}
