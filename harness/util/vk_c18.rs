//! C18 — utility helpers (feature `utils`): border extrusion and palette mapping.
use super::*;
use crate::palette::vkl::*;
use crate::vklib::*;
use image::Rgba;

fn extrude<const W: usize, const H: usize>() {
    let mut src = [[Rgba([0u8; 4]); W]; H];
    let mut raw = Vec::with_capacity(W * H * 4);
    for y in 0..H {
        for x in 0..W {
            let p = any_px();
            src[y][x] = p;
            raw.push(p.0[0]);
            raw.push(p.0[1]);
            raw.push(p.0[2]);
            raw.push(p.0[3]);
        }
    }
    let img = RgbaImage::from_raw(W as u32, H as u32, raw).unwrap();
    let out = extrude_border(img);
    assert!(out.width() == W as u32 + 2 && out.height() == H as u32 + 2, "(w+2) x (h+2)");
    for y in 0..H + 2 {
        for x in 0..W + 2 {
            let sx = if x == 0 { 0 } else if x - 1 > W - 1 { W - 1 } else { x - 1 };
            let sy = if y == 0 { 0 } else if y - 1 > H - 1 { H - 1 } else { y - 1 };
            assert!(px_eq(out.get_pixel(x as u32, y as u32), &src[sy][sx]), "pixel (x,y) == input(clamp(x-1), clamp(y-1))");
        }
    }
    kani::cover!(src[0][0].0[0] == 1 && src[H - 1][W - 1].0[3] == 2);
}
#[kani::proof]
#[kani::unwind(8)]
#[kani::stub(alloc::fmt::format, crate::vklib::empty_format)]
fn c18_q_extrude_2x2() {
    extrude::<2, 2>();
}
#[kani::proof]
#[kani::unwind(8)]
#[kani::stub(alloc::fmt::format, crate::vklib::empty_format)]
fn c18_q_extrude_1x1() {
    extrude::<1, 1>();
}
#[kani::proof]
#[kani::unwind(8)]
#[kani::stub(alloc::fmt::format, crate::vklib::empty_format)]
fn c18_q_extrude_2x1() {
    extrude::<2, 1>();
}
#[kani::proof]
#[kani::unwind(8)]
#[kani::stub(alloc::fmt::format, crate::vklib::empty_format)]
fn c18_q_extrude_1x2() {
    extrude::<1, 2>();
}
#[kani::proof]
#[kani::unwind(8)]
#[kani::stub(alloc::fmt::format, crate::vklib::empty_format)]
fn c18_t_extrude_3x1() {
    extrude::<3, 1>();
}
#[kani::proof]
#[kani::unwind(8)]
#[kani::stub(alloc::fmt::format, crate::vklib::empty_format)]
fn c18_t_extrude_1x3() {
    extrude::<1, 3>();
}

