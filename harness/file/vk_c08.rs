//! C08 — tilemap and tileset images agree with tile lookups.
use super::*;
use crate::cel::vkl::*;
use crate::cel::CelCommon;
use crate::layer::vkl::*;
use crate::tilemap::vkl::*;
use crate::vklib::*;

const TSID: u32 = 7;

fn tilemap_sprite(w: u16, h: u16, tw: u16, th: u16, tile_count: u32, x: i16, y: i16, mw: u16, mh: u16, ids: &[u32]) -> AsepriteFile {
    let ld = LayersData::from_vec(vec![mk_layer(1, 0, BlendMode::Normal, 255, LayerType::Tilemap(TSID))]).unwrap();
    let cel = RawCel {
        data: CelCommon { layer_index: 0, x, y, opacity: 255 },
        content: CelContent::Tilemap(mk_tilemap_data(mw, mh, ids)),
        user_data: None,
    };
    let mut sets = TilesetsById::new();
    if cfg!(test) {
        // native replay: the real map holds the tileset; under Kani the static answers (stub_tilesets_get_static)
        sets.add(mk_tileset(TSID, tile_count, tw, th, Vec::new()));
    }
    set_static_tileset(TSID, mk_tileset(TSID, tile_count, tw, th, Vec::new()));
    mk_file(w, h, 1, PixelFormat::Rgba, ld, mk_cels(vec![vec![Some(cel)]]), sets, Vec::new())
}

/// logical size and tile size for ALL canvas sizes and tile sizes (offset 0)
#[kani::proof]
#[kani::unwind(6)]
#[kani::stub(alloc::fmt::format, crate::vklib::empty_format)]
#[kani::stub(std::hash::RandomState::new, crate::vklib::fixed_random_state)]
#[kani::stub(crate::tileset::TilesetsById::get, crate::vklib::stub_tilesets_get_static)]
#[kani::stub(crate::vklib::stubs_probe, crate::vklib::stubs_probe_stubbed)]
fn c08_t_tilemap_size_in_tiles() {
    let (w, h): (u16, u16) = (kani::any(), kani::any());
    let (tw, th): (u16, u16) = (kani::any(), kani::any());
    kani::assume(tw >= 1 && th >= 1);
    let file = tilemap_sprite(w, h, tw, th, 3, 0, 0, 1, 1, &[1]);
    let tm = match file.tilemap(0, 0) {
        Some(t) => t,
        None => {
            assert!(false, "tilemap cel on a tilemap layer has a tilemap");
            return;
        }
    };
    // ceil(a / b) without a division: the unique c with (c-1)*b < a <= c*b
    let is_ceil = |a: u16, b: u16, c: u32| (c as u64) * (b as u64) >= a as u64 && (c == 0 || (c as u64 - 1) * (b as u64) < a as u64);
    assert!(is_ceil(w, tw, tm.width()) && is_ceil(h, th, tm.height()), "size in tiles == canvas size / tile size rounded up");
    assert!(tm.tile_size() == (tw as u32, th as u32));
    assert!(file.tilemap(1, 0).is_none() && file.tilemap(0, 1).is_none(), "out-of-range arguments give None");
    kani::cover!(tm.width() == 3 && tw == 7);
    kani::cover!(w == 0);
    core::mem::forget(file);
}

/// quick variant of the size check: every canvas size, tiles of 8x4 and 5x3 (the all-tile-sizes query takes ~9 min)
#[kani::proof]
#[kani::unwind(6)]
#[kani::stub(alloc::fmt::format, crate::vklib::empty_format)]
#[kani::stub(std::hash::RandomState::new, crate::vklib::fixed_random_state)]
#[kani::stub(crate::tileset::TilesetsById::get, crate::vklib::stub_tilesets_get_static)]
#[kani::stub(crate::vklib::stubs_probe, crate::vklib::stubs_probe_stubbed)]
fn c08_q_tilemap_size_in_tiles_fixed_tiles() {
    let (w, h): (u16, u16) = (kani::any(), kani::any());
    let odd: bool = kani::any();
    let (tw, th): (u16, u16) = if odd { (5, 3) } else { (8, 4) };
    let file = tilemap_sprite(w, h, tw, th, 3, 0, 0, 1, 1, &[1]);
    let tm = file.tilemap(0, 0).unwrap();
    let is_ceil = |a: u16, b: u16, c: u32| (c as u64) * (b as u64) >= a as u64 && (c == 0 || (c as u64 - 1) * (b as u64) < a as u64);
    assert!(is_ceil(w, tw, tm.width()) && is_ceil(h, th, tm.height()), "size in tiles == canvas size / tile size rounded up");
    assert!(tm.tile_size() == (tw as u32, th as u32));
    kani::cover!(odd && w == 11 && tm.width() == 3);
    kani::cover!(!odd && w == 65535);
    core::mem::forget(file);
}

/// offsets and lookups at ANY u32 coordinates: tiles of 8x4, stored 1x1 map at every tile-aligned i16 offset
#[kani::proof]
#[kani::unwind(6)]
#[kani::stub(alloc::fmt::format, crate::vklib::empty_format)]
#[kani::stub(std::hash::RandomState::new, crate::vklib::fixed_random_state)]
#[kani::stub(crate::tileset::TilesetsById::get, crate::vklib::stub_tilesets_get_static)]
#[kani::stub(crate::vklib::stubs_probe, crate::vklib::stubs_probe_stubbed)]
fn c08_q_tilemap_geometry_and_lookup() {
    let (ox, oy): (i16, i16) = (kani::any(), kani::any());
    kani::assume(ox >= -4096 && ox < 4096 && oy >= -8192 && oy < 8192);
    let (x, y) = (ox * 8, oy * 4);
    let id: u32 = kani::any();
    kani::assume(id < 3);
    let file = tilemap_sprite(64, 64, 8, 4, 3, x, y, 1, 1, &[id]);
    let tm = file.tilemap(0, 0).unwrap();
    assert!(tm.pixel_offsets() == (x as i32, y as i32));
    assert!(tm.tile_offsets() == (ox as i32, oy as i32), "tile offsets == cel offset / tile size");
    let (qx, qy): (u32, u32) = (kani::any(), kani::any());
    let t = tm.tile(qx, qy);
    if qx as i64 - ox as i64 == 0 && qy as i64 - oy as i64 == 0 {
        assert!(t.id() == id, "lookup inside the stored area returns the stored tile");
    } else {
        assert!(t.id() == 0, "lookup outside the stored area returns the empty tile 0");
    }
    kani::cover!(qx == 0x8000_0000 && ox > 0);
    kani::cover!(x < 0 && qx == 0);
    core::mem::forget(file);
}

/// stored 2x2 map: lookups agree with the stored row-major tiles
#[kani::proof]
#[kani::unwind(6)]
#[kani::stub(alloc::fmt::format, crate::vklib::empty_format)]
#[kani::stub(std::hash::RandomState::new, crate::vklib::fixed_random_state)]
#[kani::stub(crate::tileset::TilesetsById::get, crate::vklib::stub_tilesets_get_static)]
#[kani::stub(crate::vklib::stubs_probe, crate::vklib::stubs_probe_stubbed)]
fn c08_q_tilemap_lookup_2x2() {
    let ids: [u32; 4] = kani::any();
    kani::assume(ids[0] < 5 && ids[1] < 5 && ids[2] < 5 && ids[3] < 5);
    let (ox, oy): (i8, i8) = (kani::any(), kani::any());
    let file = tilemap_sprite(8, 8, 2, 2, 5, ox as i16 * 2, oy as i16 * 2, 2, 2, &ids);
    let tm = file.tilemap(0, 0).unwrap();
    let (qx, qy): (u32, u32) = (kani::any(), kani::any());
    kani::assume(qx < 300 && qy < 300);
    let (rx, ry) = (qx as i64 - ox as i64, qy as i64 - oy as i64);
    let t = tm.tile(qx, qy);
    if rx >= 0 && rx < 2 && ry >= 0 && ry < 2 {
        assert!(t.id() == ids[(ry * 2 + rx) as usize], "row-major stored tile at (x - offset, y - offset)");
    } else {
        assert!(t.id() == 0);
    }
    kani::cover!(ox == -1 && qx == 0 && qy == 1 && oy == 0);
    core::mem::forget(file);
}

/// U2: write_tilemap_cel_to_image -- canvas 2x2, tiles TWx1, stored map 2x1 of symbolic tile ids, symbolic i16 offset
fn tilemap_raster<const TW: usize>() {
    let mut before = [[Rgba([0u8; 4]); 2]; 2];
    let mut raw = Vec::with_capacity(16);
    for yy in 0..2 {
        for xx in 0..2 {
            let p = any_px();
            before[yy][xx] = p;
            raw.push(p.0[0]);
            raw.push(p.0[1]);
            raw.push(p.0[2]);
            raw.push(p.0[3]);
        }
    }
    let mut img = RgbaImage::from_raw(2, 2, raw).unwrap();
    // tileset: 3 tiles (0 = empty tile) of TW x 1
    let mut px = Vec::with_capacity(3 * TW);
    for _ in 0..3 * TW {
        px.push(any_px());
    }
    let ts = mk_tileset(TSID, 3, TW as u16, 1, Vec::new());
    let ids: [u32; 2] = kani::any();
    kani::assume(ids[0] < 3 && ids[1] < 3);
    let data = mk_tilemap_data(2, 1, &ids);
    let (x, y): (i16, i16) = (kani::any(), kani::any());
    let (lo, co): (u8, u8) = (kani::any(), kani::any());
    let mode = any_blend_mode();
    let common = CelCommon { layer_index: 0, x, y, opacity: co };
    write_tilemap_cel_to_image(&mut img, &common, &data, &ts, &px, &mode, lo);
    let op = mul8_ref(lo, co);
    for yy in 0..2usize {
        for xx in 0..2usize {
            let cx = xx as i32 - x as i32;
            let cy = yy as i32 - y as i32;
            let got = *img.get_pixel(xx as u32, yy as u32);
            if cx >= 0 && cx < 2 * TW as i32 && cy == 0 {
                let tile = ids[cx as usize / TW] as usize;
                let src = px[tile * TW + cx as usize % TW];
                let exp = (blend_mode_to_blend_fn(mode))(before[yy][xx], src, op);
                assert!(px_eq(&got, &exp), "covered pixel == blend(mode, before, pixel of the tile the map stores there, round(lo*co/255))");
            } else {
                assert!(px_eq(&got, &before[yy][xx]), "pixel outside the map is unchanged");
            }
        }
    }
    kani::cover!(x == -1 && y == 1);
    kani::cover!(x == 0 && y == 0 && ids[0] == 2 && ids[1] == 0);
    core::mem::forget(ts);
}
#[kani::proof]
#[kani::unwind(5)]
#[kani::stub(alloc::fmt::format, crate::vklib::empty_format)]
#[kani::stub(crate::file::blend_mode_to_blend_fn, crate::vklib::uf_blend_fn)]
fn c08_q_tilemap_raster_tile1x1() {
    tilemap_raster::<1>();
}
#[kani::proof]
#[kani::unwind(8)]
#[kani::stub(alloc::fmt::format, crate::vklib::empty_format)]
#[kani::stub(crate::file::blend_mode_to_blend_fn, crate::vklib::uf_blend_fn)]
fn c08_t_tilemap_raster_tile2x1() {
    tilemap_raster::<2>();
}

/// tile images and the stacked tileset image: 2 tiles of 2x1
#[kani::proof]
#[kani::unwind(12)]
#[kani::stub(alloc::fmt::format, crate::vklib::empty_format)]
fn c08_q_tileset_images() {
    let mut px = Vec::with_capacity(4);
    let mut p = [Rgba([0u8; 4]); 4];
    for i in 0..4 {
        p[i] = any_px();
        px.push(p[i]);
    }
    let ts = mk_tileset(TSID, 2, 2, 1, px);
    assert!(ts.tile_count() == 2 && ts.tile_size().width() == 2 && ts.tile_size().height() == 1);
    let i: u32 = kani::any();
    kani::assume(i < 2);
    let ti = ts.tile_image(i);
    assert!(ti.width() == 2 && ti.height() == 1, "each tile image has exactly the tile size");
    assert!(px_eq(ti.get_pixel(0, 0), &p[2 * i as usize]) && px_eq(ti.get_pixel(1, 0), &p[2 * i as usize + 1]), "tile i == i-th window of the pixel data");
    let all = ts.image();
    assert!(all.width() == 2 && all.height() == 2, "stacked image: tile width x (tile height * count)");
    for t in 0..2u32 {
        for xx in 0..2u32 {
            assert!(px_eq(all.get_pixel(xx, t), &p[(2 * t + xx) as usize]), "tiles stacked vertically in index order");
        }
    }
    kani::cover!(i == 1);
    core::mem::forget(ts);
}

/// tile word decode through the bitmask header
#[kani::proof]
#[kani::stub(alloc::fmt::format, crate::vklib::empty_format)]
fn c08_q_tile_word_decode() {
    let w: [u8; 4] = kani::any();
    let mask: u32 = kani::any();
    let h = crate::tilemap::TileBitmaskHeader { tile_id: mask, x_flip: kani::any(), y_flip: kani::any(), rotate_90cw: kani::any() };
    let t = crate::tile::Tile::new(&w, &h).unwrap();
    assert!(t.id() == u32::from_le_bytes(w) & mask, "tile id == word & id mask");
    kani::cover!(mask == 0x1fff_ffff && t.id() == 5);
}

static mut TM_CALLS: usize = 0;
static mut TM_ARGS: (u8, u8, u8) = (0, 0, 0); // outer opacity, cel opacity, blend mode
/// Recording stand-in for write_tilemap_cel_to_image: notes the arguments write_cel hands to the tilemap rasteriser
/// (what the rasteriser does with them is decided by c08_q_tilemap_raster_*).
pub(crate) fn recording_write_tilemap_cel(
    _image: &mut RgbaImage,
    cel_data: &CelCommon,
    _tilemap_data: &TilemapData,
    _tileset: &Tileset,
    _pixels: &[Rgba<u8>],
    blend_mode: &BlendMode,
    outer_opacity: u8,
) {
    unsafe {
        TM_CALLS += 1;
        TM_ARGS = (outer_opacity, cel_data.opacity, *blend_mode as u8);
    }
}
pub(crate) fn never_write_raw_cel(_i: &mut RgbaImage, _c: &CelCommon, _s: &crate::cel::ImageSize, _p: &[Rgba<u8>], _b: &BlendMode, _o: u8) {
    // a tilemap cel is never handed to the image-cel rasteriser
    kani::assume(false);
}

/// the tilemap cel THROUGH write_cel (the route of Tilemap::image / Cel::image / Frame::image): the tilemap rasteriser is
/// called exactly once, with the LAYER's opacity, the cel's own opacity and the layer's blend mode -- so that, by
/// c08_q_tilemap_raster_*, the opacity product is applied exactly once. Under Kani the rasteriser is the recorder
/// above; in a native replay (cfg(test), no stubs) the same is observed through the image with the real Normal blend.
#[kani::proof]
#[kani::unwind(6)]
#[kani::stub(alloc::fmt::format, crate::vklib::empty_format)]
#[kani::stub(std::hash::RandomState::new, crate::vklib::fixed_random_state)]
#[kani::stub(crate::tileset::TilesetsById::get, crate::vklib::stub_tilesets_get_static)]
#[kani::stub(crate::palette::ColorPalette::color, crate::vklib::stub_color_none)]
#[kani::stub(crate::pixel::Pixels::clone_as_image_rgba, crate::vklib::stub_clone_rgba_only)]
#[kani::stub(crate::file::write_tilemap_cel_to_image, crate::file::vk_c08::recording_write_tilemap_cel)]
#[kani::stub(crate::file::write_raw_cel_to_image, crate::file::vk_c08::never_write_raw_cel)]
fn c08_q_tilemap_cel_through_write_cel() {
    let (lop, cop): (u8, u8) = (kani::any(), kani::any());
    let px: [Rgba<u8>; 2] = [any_px(), any_px()];
    let id: u32 = kani::any();
    kani::assume(id < 2);
    let mode = if cfg!(test) { BlendMode::Normal } else { any_blend_mode() };
    let ld = LayersData::from_vec(vec![mk_layer(1, 0, mode, lop, LayerType::Tilemap(TSID))]).unwrap();
    let cel = RawCel {
        data: CelCommon { layer_index: 0, x: 0, y: 0, opacity: cop },
        content: CelContent::Tilemap(mk_tilemap_data(1, 1, &[id])),
        user_data: None,
    };
    let mut sets = TilesetsById::new();
    if cfg!(test) {
        sets.add(mk_tileset(TSID, 2, 1, 1, vec![px[0], px[1]]));
    } else {
        set_static_tileset(TSID, mk_tileset(TSID, 2, 1, 1, vec![px[0], px[1]]));
    }
    let file = mk_file(1, 1, 1, PixelFormat::Rgba, ld, mk_cels(vec![vec![Some(cel)]]), sets, Vec::new());
    let img = file.cel(0, 0).image();
    assert!(img.width() == 1 && img.height() == 1);
    if cfg!(test) {
        let exp = crate::blend::normal(Rgba([0, 0, 0, 0]), px[id as usize], mul8_ref(lop, cop));
        assert!(px_equiv(img.get_pixel(0, 0), &exp), "tilemap cel image pixel == the stored tile's pixel, alpha scaled ONCE by round(lo*co/255)");
    } else {
        let (calls, args) = unsafe { (TM_CALLS, TM_ARGS) };
        assert!(calls == 1, "the tilemap rasteriser is called exactly once");
        assert!(args.0 == lop && args.1 == cop && args.2 == mode as u8, "with the layer's opacity, the cel's own opacity and the layer's mode");
    }
    kani::cover!(cop == 128 && lop == 255 && id == 1);
    kani::cover!(cop == 255 && lop == 100);
    core::mem::forget(file);
}
