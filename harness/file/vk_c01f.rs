//! C01 (accessor part): lookups by name, optional lookups, iteration -- on a constructed sprite.
use super::*;
use crate::layer::vkl::*;
use crate::vklib::*;

fn name1(c: u8) -> String {
    let mut s = String::new();
    s.push(c as char);
    s
}

/// three layers with one-byte symbolic names: layer_by_name returns the lowest-numbered match, layers() visits
/// ids 0,1,2 once each, num_layers is 3
#[kani::proof]
#[kani::unwind(6)]
#[kani::stub(alloc::fmt::format, crate::vklib::empty_format)]
#[kani::stub(std::hash::RandomState::new, crate::vklib::fixed_random_state)]
fn c01_q_layer_lookup_and_iteration() {
    let n: [u8; 3] = kani::any();
    kani::assume(n[0] < 0x80 && n[1] < 0x80 && n[2] < 0x80);
    let q: u8 = kani::any();
    kani::assume(q < 0x80);
    let lv = vec![mk_named_layer(name1(n[0]), 1, 0), mk_named_layer(name1(n[1]), 1, 0), mk_named_layer(name1(n[2]), 1, 0)];
    let ld = LayersData::from_vec(lv).unwrap();
    let f = mk_file(1, 1, 1, PixelFormat::Rgba, ld, CelsData::new(1), TilesetsById::new(), Vec::new());
    assert!(f.num_layers() == 3);
    let query = name1(q);
    let exp = if n[0] == q { Some(0) } else if n[1] == q { Some(1) } else if n[2] == q { Some(2) } else { None };
    match f.layer_by_name(&query) {
        None => assert!(exp.is_none(), "an existing name is found"),
        Some(l) => assert!(exp == Some(l.id()), "lowest-numbered layer with that name"),
    }
    let mut k = 0u32;
    for l in f.layers() {
        assert!(l.id() == k, "iteration in index order");
        assert!(l.name().len() == 1 && l.name().as_bytes()[0] == n[k as usize]);
        k += 1;
    }
    assert!(k == 3, "every layer exactly once");
    kani::cover!(n[0] != q && n[1] == q && n[2] == q);
    kani::cover!(exp.is_none());
    core::mem::forget(f);
    core::mem::forget(query);
}

/// three tags with one-byte symbolic names: tag_by_name returns the lowest-numbered match, get_tag is None out of
/// range, tag(i) is the i-th tag, num_tags is 3
#[kani::proof]
#[kani::unwind(6)]
#[kani::stub(alloc::fmt::format, crate::vklib::empty_format)]
#[kani::stub(std::hash::RandomState::new, crate::vklib::fixed_random_state)]
fn c01_q_tag_lookup() {
    let n: [u8; 3] = kani::any();
    kani::assume(n[0] < 0x80 && n[1] < 0x80 && n[2] < 0x80);
    let q: u8 = kani::any();
    kani::assume(q < 0x80);
    let fr: [u16; 3] = kani::any();
    let tags = vec![
        crate::tags::vkl::mk_tag(name1(n[0]), fr[0], 0),
        crate::tags::vkl::mk_tag(name1(n[1]), fr[1], 1),
        crate::tags::vkl::mk_tag(name1(n[2]), fr[2], 2),
    ];
    let ld = LayersData::from_vec(Vec::new()).unwrap();
    let f = mk_file(1, 1, 1, PixelFormat::Rgba, ld, CelsData::new(1), TilesetsById::new(), tags);
    assert!(f.num_tags() == 3);
    let query = name1(q);
    let exp: Option<u32> = if n[0] == q { Some(0) } else if n[1] == q { Some(1) } else if n[2] == q { Some(2) } else { None };
    match f.tag_by_name(&query) {
        None => assert!(exp.is_none(), "an existing tag name is found"),
        Some(t) => assert!(exp == Some(t.to_frame()), "lowest-numbered tag with that name (to_frame marks the index)"),
    }
    let i: u32 = kani::any();
    match f.get_tag(i) {
        None => assert!(i >= 3, "in-range ids resolve"),
        Some(t) => assert!(i < 3 && t.to_frame() == i && t.from_frame() == fr[i as usize] as u32, "get_tag(i) is the i-th tag"),
    }
    kani::assume(i < 3);
    assert!(f.tag(i).to_frame() == i);
    kani::cover!(n[0] != q && n[1] == q && n[2] == q);
    kani::cover!(exp.is_none());
    core::mem::forget(f);
    core::mem::forget(query);
}
