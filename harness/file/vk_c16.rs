//! C16 — a loaded sprite is an immutable value; results are deterministic (solver-decided part).
//! Thread interleavings are NOT decided (Kani has no concurrency model); Send + Sync is decided by the type checker in
//! a separate probe crate (see the driver's C16 post-step).
use super::*;
use crate::cel::vkl::*;
use crate::layer::vkl::*;
use crate::vklib::*;

/// every accessor called twice, and pairs in both orders, gives equal results on a sprite with symbolic contents
#[kani::proof]
#[kani::unwind(5)]
#[kani::stub(alloc::fmt::format, crate::vklib::empty_format)]
#[kani::stub(std::hash::RandomState::new, crate::vklib::fixed_random_state)]
#[kani::stub(crate::file::blend_mode_to_blend_fn, crate::vklib::uf_blend_fn)]
#[kani::stub(crate::tileset::TilesetsById::get, crate::vklib::stub_tilesets_get_none)]
#[kani::stub(crate::palette::ColorPalette::color, crate::vklib::stub_color_none)]
#[kani::stub(crate::file::write_raw_cel_to_image, crate::file::vk_c02::contract_write_raw_cel_1x1)]
#[kani::stub(crate::pixel::Pixels::clone_as_image_rgba, crate::vklib::stub_clone_rgba_only)]
fn c16_q_accessors_repeatable() {
    let flags: [u16; 2] = kani::any();
    let ld = LayersData::from_vec(vec![
        mk_layer(flags[0] as u32, 0, any_blend_mode(), kani::any(), LayerType::Group),
        mk_layer(flags[1] as u32, 1, any_blend_mode(), kani::any(), LayerType::Image),
    ])
    .unwrap();
    let f0 = vec![None, Some(raw_cel_1px(1, 0, 0, kani::any(), any_px()))];
    let file = mk_file(1, 1, 1, PixelFormat::Rgba, ld, mk_cels(vec![f0]), TilesetsById::new(), Vec::new());
    // image first, then visibility, then image again; visibility before and after
    let v1 = file.layer(1).is_visible();
    let i1 = file.frame(0).image();
    let c1 = file.cel(0, 1).image();
    let v2 = file.layer(1).is_visible();
    let i2 = file.frame(0).image();
    let c2 = file.cel(0, 1).image();
    assert!(v1 == v2, "is_visible is repeatable");
    assert!(px_eq(i1.get_pixel(0, 0), i2.get_pixel(0, 0)), "Frame::image is repeatable and unaffected by other calls");
    assert!(px_eq(c1.get_pixel(0, 0), c2.get_pixel(0, 0)), "Cel::image is repeatable");
    assert!(file.layer(1).parent().map(|p| p.id()) == file.layer(1).parent().map(|p| p.id()));
    assert!(file.cel(0, 1).top_left() == file.cel(0, 1).top_left() && file.cel(0, 0).is_empty() == file.cel(0, 0).is_empty());
    assert!(file.num_layers() == 2 && file.num_frames() == 1 && file.size() == (1, 1));
    kani::cover!(v1 && flags[0] & 1 == 1);
    kani::cover!(!v1 && flags[1] & 1 == 1);
    core::mem::forget(file);
}
