//! C06 (accessor part): Cel::{is_empty, top_left, is_tilemap, frame, layer, image} on a constructed sprite.
use super::vk_c02::contract_write_raw_cel_1x1;
use super::*;
use crate::cel::vkl::*;
use crate::layer::vkl::*;
use crate::vklib::*;

/// one layer, two frames; frame 0 holds: kind 0 nothing, 1 a raw 1x1 cel, 2 a cel linked to frame 1
fn cel_image(kind: u8) {
    let lop: u8 = kani::any();
    let mode = any_blend_mode();
    let flags: u16 = kani::any(); // visibility does not matter for Cel::image
    let ld = LayersData::from_vec(vec![mk_layer(flags as u32, 0, mode, lop, LayerType::Image)]).unwrap();
    let (px0, px1) = (any_px(), any_px());
    let (cop0, cop1): (u8, u8) = (kani::any(), kani::any());
    let (x, y): (i16, i16) = (kani::any(), kani::any());
    let (f0, f1) = match kind {
        0 => (None, Some(raw_cel_1px(0, 0, 0, cop1, px1))),
        1 => (Some(raw_cel_1px(0, 0, 0, cop0, px0)), None),
        _ => (Some(linked_cel(0, x, y, cop0, 1)), Some(raw_cel_1px(0, 0, 0, cop1, px1))),
    };
    let file = mk_file(1, 1, 2, PixelFormat::Rgba, ld, mk_cels(vec![vec![f0], vec![f1]]), TilesetsById::new(), Vec::new());
    let c = file.cel(0, 0);
    assert!(c.frame() == 0 && c.layer() == 0);
    assert!(c.is_empty() == (kind == 0), "absent cel reports empty");
    assert!(!c.is_tilemap());
    let img = c.image();
    assert!(img.width() == 1 && img.height() == 1, "cel image has the canvas dimensions");
    let got = *img.get_pixel(0, 0);
    let transparent = Rgba([0u8, 0, 0, 0]);
    match kind {
        0 => {
            assert!(c.top_left() == (0, 0), "absent cel has offset (0,0)");
            assert!(got.0[3] == 0, "absent cel renders fully transparent");
        }
        1 => {
            let exp = (blend_mode_to_blend_fn(mode))(transparent, px0, mul8_ref(lop, cop0));
            assert!(px_equiv(&got, &exp), "cel image == blend(layer mode, transparent, stored pixel, round(lo*co/255))");
        }
        _ => {
            assert!(c.top_left() == (x as i32, y as i32), "offset as stored");
            let other = file.cel(1, 0).image();
            assert!(px_eq(&got, other.get_pixel(0, 0)), "linked cel renders exactly like the cel it links to");
            let exp = (blend_mode_to_blend_fn(mode))(transparent, px1, mul8_ref(lop, cop1));
            assert!(px_equiv(&got, &exp));
        }
    }
    kani::cover!(flags & 1 == 0, "hidden layer still has a cel image");
    kani::cover!(lop == 255 && cop1 == 128);
    core::mem::forget(file);
}

macro_rules! cel_image_harness {
    ($name:ident, $k:expr) => {
        #[kani::proof]
        #[kani::unwind(5)]
        #[kani::stub(alloc::fmt::format, crate::vklib::empty_format)]
        #[kani::stub(std::hash::RandomState::new, crate::vklib::fixed_random_state)]
        #[kani::stub(crate::file::blend_mode_to_blend_fn, crate::vklib::uf_blend_fn)]
        #[kani::stub(crate::tileset::TilesetsById::get, crate::vklib::stub_tilesets_get_none)]
        #[kani::stub(crate::palette::ColorPalette::color, crate::vklib::stub_color_none)]
        #[kani::stub(crate::file::write_raw_cel_to_image, crate::file::vk_c02::contract_write_raw_cel_1x1)]
        #[kani::stub(crate::pixel::Pixels::clone_as_image_rgba, crate::vklib::stub_clone_rgba_only)]
        fn $name() {
            cel_image($k);
        }
    };
}
cel_image_harness!(c06_q_cel_image_absent, 0);
cel_image_harness!(c06_q_cel_image_raw, 1);
cel_image_harness!(c06_q_cel_image_linked, 2);

/// top_left for a raw cel at any i16 offset (no rendering)
#[kani::proof]
#[kani::unwind(5)]
#[kani::stub(alloc::fmt::format, crate::vklib::empty_format)]
#[kani::stub(std::hash::RandomState::new, crate::vklib::fixed_random_state)]
fn c06_q_cel_top_left_any_offset() {
    let ld = LayersData::from_vec(vec![mk_layer(1, 0, BlendMode::Normal, 255, LayerType::Image)]).unwrap();
    let (x, y): (i16, i16) = (kani::any(), kani::any());
    let file = mk_file(1, 1, 1, PixelFormat::Rgba, ld, mk_cels(vec![vec![Some(raw_cel_1px(0, x, y, 255, any_px()))]]), TilesetsById::new(), Vec::new());
    let c = file.cel(0, 0);
    assert!(c.top_left() == (x as i32, y as i32), "offset as stored, sign preserved");
    assert!(!c.is_empty() && !c.is_tilemap());
    kani::cover!(x == -32768 && y == 32767);
    core::mem::forget(file);
}
