//! C19 — all access paths to a cel agree; single-layer frames equal the cel image.
use super::*;
use crate::cel::vkl::*;
use crate::layer::vkl::*;
use crate::vklib::*;

/// F = 2 frames, L = 3 layers (non-square, so swapped arguments are distinguishable); symbolic (f, l) in range:
/// the three routes denote the same cel and report identical coordinates, emptiness, offset and user data
#[kani::proof]
#[kani::unwind(6)]
#[kani::stub(alloc::fmt::format, crate::vklib::empty_format)]
#[kani::stub(std::hash::RandomState::new, crate::vklib::fixed_random_state)]
fn c19_q_three_routes_same_cel() {
    let mut lv = Vec::with_capacity(3);
    for _ in 0..3 {
        lv.push(mk_layer(1, 0, BlendMode::Normal, 255, LayerType::Image));
    }
    let ld = LayersData::from_vec(lv).unwrap();
    let off: [(i16, i16); 4] = kani::any();
    // frame 0: [raw, -, raw]   frame 1: [-, raw, raw]
    let mut c00 = raw_cel_1px(0, off[0].0, off[0].1, 255, any_px());
    c00.user_data = Some(UserData { text: None, color: Some(any_px()) });
    let f0 = vec![Some(c00), None, Some(raw_cel_1px(2, off[1].0, off[1].1, 255, any_px()))];
    let f1 = vec![None, Some(raw_cel_1px(1, off[2].0, off[2].1, 255, any_px())), Some(raw_cel_1px(2, off[3].0, off[3].1, 255, any_px()))];
    let present = [[true, false, true], [false, true, true]];
    let offs = [[off[0], (0, 0), off[1]], [(0, 0), off[2], off[3]]];
    let file = mk_file(1, 1, 2, PixelFormat::Rgba, ld, mk_cels(vec![f0, f1]), TilesetsById::new(), Vec::new());
    let f: u32 = kani::any();
    let l: u32 = kani::any();
    kani::assume(f < 2 && l < 3);
    let a = file.cel(f, l);
    let fr = file.frame(f);
    let b = fr.layer(l);
    let ly = file.layer(l);
    let c = ly.frame(f);
    for x in [&a, &b, &c] {
        assert!(x.frame() == f && x.layer() == l, "route reports the requested (frame, layer)");
        assert!(x.cel_id.frame as u32 == f && x.cel_id.layer as u32 == l, "route denotes cel (f, l)");
        assert!(x.is_empty() == !present[f as usize][l as usize], "emptiness");
        let o = offs[f as usize][l as usize];
        assert!(x.top_left() == (o.0 as i32, o.1 as i32), "offset");
        assert!(!x.is_tilemap());
    }
    match (a.user_data(), b.user_data(), c.user_data()) {
        (None, None, None) => assert!(!(f == 0 && l == 0)),
        (Some(p), Some(q), Some(r)) => assert!(f == 0 && l == 0 && core::ptr::eq(p, q) && core::ptr::eq(q, r), "same user data object"),
        _ => assert!(false, "routes disagree on user data"),
    }
    kani::cover!(f == 1 && l == 2);
    kani::cover!(f == 0 && l == 1);
    core::mem::forget(file);
}

/// a frame in which exactly one visible layer has a cel renders exactly that cel's image
#[kani::proof]
#[kani::unwind(5)]
#[kani::stub(alloc::fmt::format, crate::vklib::empty_format)]
#[kani::stub(std::hash::RandomState::new, crate::vklib::fixed_random_state)]
#[kani::stub(crate::file::blend_mode_to_blend_fn, crate::vklib::uf_blend_fn)]
#[kani::stub(crate::tileset::TilesetsById::get, crate::vklib::stub_tilesets_get_none)]
#[kani::stub(crate::palette::ColorPalette::color, crate::vklib::stub_color_none)]
#[kani::stub(crate::file::write_raw_cel_to_image, crate::file::vk_c02::contract_write_raw_cel_1x1)]
#[kani::stub(crate::pixel::Pixels::clone_as_image_rgba, crate::vklib::stub_clone_rgba_only)]
fn c19_q_single_cel_frame_equals_cel_image() {
    let mode = any_blend_mode();
    let (lop, cop): (u8, u8) = (kani::any(), kani::any());
    let hidden_flags: u16 = kani::any();
    let ld = LayersData::from_vec(vec![
        mk_layer(hidden_flags as u32 & !1, 0, any_blend_mode(), kani::any(), LayerType::Image), // hidden layer WITH a cel
        mk_layer(1, 0, mode, lop, LayerType::Image),
    ])
    .unwrap();
    let f0 = vec![Some(raw_cel_1px(0, 0, 0, kani::any(), any_px())), Some(raw_cel_1px(1, 0, 0, cop, any_px()))];
    let file = mk_file(1, 1, 1, PixelFormat::Rgba, ld, mk_cels(vec![f0]), TilesetsById::new(), Vec::new());
    let fi = file.frame(0).image();
    let ci = file.cel(0, 1).image();
    assert!(fi.dimensions() == ci.dimensions());
    assert!(px_equiv(fi.get_pixel(0, 0), ci.get_pixel(0, 0)), "frame with one visible cel == that cel's image");
    kani::cover!(lop == 255 && cop == 77);
    core::mem::forget(file);
}
