//! C02 — frame image = bottom-to-top composition of visible layers.
//! The 19 blend functions are one uninterpreted function UF(mode, backdrop, source, opacity) (vklib::uf_blend_fn
//! replaces file::blend_mode_to_blend_fn, which Kani cannot compile); their arithmetic is C03's subject.
use super::*;
use crate::cel::vkl::*;
use crate::layer::vkl::*;
use crate::vklib::*;
use crate::cel::{CelCommon, ImageSize};

fn spec_blend(mode: BlendMode, b: Rgba<u8>, s: Rgba<u8>, o: u8) -> Rgba<u8> {
    // same symbol the code under test uses: the UF under Kani, the real dispatch table in native replays
    (blend_mode_to_blend_fn(mode))(b, s, o)
}

/// U1: write_raw_cel_to_image on a CW x CH canvas with a W x H cel at a fully symbolic i16 offset.
fn raw_cel_unit<const CW: usize, const CH: usize, const W: usize, const H: usize>() {
    let mut before = [[Rgba([0u8; 4]); CW]; CH];
    let mut raw = Vec::with_capacity(CW * CH * 4);
    for yy in 0..CH {
        for xx in 0..CW {
            let p = any_px();
            before[yy][xx] = p;
            raw.push(p.0[0]);
            raw.push(p.0[1]);
            raw.push(p.0[2]);
            raw.push(p.0[3]);
        }
    }
    let mut img = RgbaImage::from_raw(CW as u32, CH as u32, raw).unwrap();
    let mut pixels = Vec::with_capacity(W * H);
    for _ in 0..W * H {
        pixels.push(any_px());
    }
    let x: i16 = kani::any();
    let y: i16 = kani::any();
    let cel_op: u8 = kani::any();
    let layer_op: u8 = kani::any();
    let mode = any_blend_mode();
    let common = CelCommon { layer_index: 0, x, y, opacity: cel_op };
    let size = ImageSize { width: W as u16, height: H as u16 };
    write_raw_cel_to_image(&mut img, &common, &size, &pixels, &mode, layer_op);

    assert!(img.width() == CW as u32 && img.height() == CH as u32);
    let op = mul8_ref(layer_op, cel_op);
    for yy in 0..CH {
        for xx in 0..CW {
            let cx = xx as i32 - x as i32;
            let cy = yy as i32 - y as i32;
            let got = *img.get_pixel(xx as u32, yy as u32);
            if cx >= 0 && cx < W as i32 && cy >= 0 && cy < H as i32 {
                let src = pixels[cy as usize * W + cx as usize];
                let exp = spec_blend(mode, before[yy][xx], src, op);
                assert!(px_eq(&got, &exp), "covered pixel == blend(mode, before, cel pixel at (X-x, Y-y), round(lo*co/255))");
            } else {
                assert!(px_eq(&got, &before[yy][xx]), "pixel outside the cel rectangle is unchanged");
            }
        }
    }
    kani::cover!(x == 0 && y == 0, "on canvas");
    kani::cover!(x == -(W as i16 - 1) && y == 0, "partly (or just) off the left edge");
    kani::cover!(x == CW as i16 - 1 && y == CH as i16 - 1, "only the top-left cel pixel on the bottom-right canvas pixel");
    kani::cover!(y == -(H as i16), "just off the top edge");
    kani::cover!(x == i16::MIN && y == i16::MAX, "fully off canvas at the extremes");
}

#[kani::proof]
#[kani::unwind(5)]
#[kani::stub(alloc::fmt::format, crate::vklib::empty_format)]
#[kani::stub(crate::file::blend_mode_to_blend_fn, crate::vklib::uf_blend_fn)]
#[kani::stub(crate::tileset::TilesetsById::get, crate::vklib::stub_tilesets_get_none)]
#[kani::stub(crate::palette::ColorPalette::color, crate::vklib::stub_color_none)]
fn c02_q_raw_cel_2x2_2x1() {
    raw_cel_unit::<2, 2, 2, 1>();
}

#[kani::proof]
#[kani::unwind(5)]
#[kani::stub(alloc::fmt::format, crate::vklib::empty_format)]
#[kani::stub(crate::file::blend_mode_to_blend_fn, crate::vklib::uf_blend_fn)]
#[kani::stub(crate::tileset::TilesetsById::get, crate::vklib::stub_tilesets_get_none)]
#[kani::stub(crate::palette::ColorPalette::color, crate::vklib::stub_color_none)]
fn c02_q_raw_cel_2x2_1x2() {
    raw_cel_unit::<2, 2, 1, 2>();
}

#[kani::proof]
#[kani::unwind(5)]
#[kani::stub(alloc::fmt::format, crate::vklib::empty_format)]
#[kani::stub(crate::file::blend_mode_to_blend_fn, crate::vklib::uf_blend_fn)]
#[kani::stub(crate::tileset::TilesetsById::get, crate::vklib::stub_tilesets_get_none)]
#[kani::stub(crate::palette::ColorPalette::color, crate::vklib::stub_color_none)]
fn c02_t_raw_cel_2x2_2x2() {
    raw_cel_unit::<2, 2, 2, 2>();
}

#[kani::proof]
#[kani::unwind(5)]
#[kani::stub(alloc::fmt::format, crate::vklib::empty_format)]
#[kani::stub(crate::file::blend_mode_to_blend_fn, crate::vklib::uf_blend_fn)]
#[kani::stub(crate::tileset::TilesetsById::get, crate::vklib::stub_tilesets_get_none)]
#[kani::stub(crate::palette::ColorPalette::color, crate::vklib::stub_color_none)]
fn c02_t_raw_cel_3x2_2x2() {
    raw_cel_unit::<3, 2, 2, 2>();
}

#[kani::proof]
#[kani::unwind(5)]
#[kani::stub(alloc::fmt::format, crate::vklib::empty_format)]
#[kani::stub(crate::file::blend_mode_to_blend_fn, crate::vklib::uf_blend_fn)]
#[kani::stub(crate::tileset::TilesetsById::get, crate::vklib::stub_tilesets_get_none)]
#[kani::stub(crate::palette::ColorPalette::color, crate::vklib::stub_color_none)]
fn c02_t_raw_cel_1x1_1x1() {
    raw_cel_unit::<1, 1, 1, 1>();
}

/// Contract of write_raw_cel_to_image for a 1x1 cel at (0,0) on a 1x1 canvas, as decided by c02_*_raw_cel_1x1_1x1:
/// the single pixel becomes blend(mode, before, cel pixel, round(lo*co/255)). Used as a stub in the fold harnesses so
/// that the fold (ordering, visibility gate, cel-kind dispatch, linked-cel resolution, argument plumbing) is decided
/// without re-exploring the rasteriser.
pub(crate) fn contract_write_raw_cel_1x1(
    image: &mut RgbaImage,
    cel_data: &CelCommon,
    image_size: &ImageSize,
    pixels: &[Rgba<u8>],
    blend_mode: &BlendMode,
    outer_opacity: u8,
) {
    assert!(image.width() == 1 && image.height() == 1 && image_size.width == 1 && image_size.height == 1);
    assert!(cel_data.x == 0 && cel_data.y == 0 && pixels.len() == 1);
    let before = *image.get_pixel(0, 0);
    let new = uf_blend(*blend_mode, before, pixels[0], mul8_ref(outer_opacity, cel_data.opacity));
    image.put_pixel(0, 0, new);
}

/// U3: Frame::image on a constructed sprite == fold over layers in index order that are visible and have a cel.
/// Canvas and cels are 1x1 at offset (0,0) (geometry is U1's subject); per layer: symbolic flags, nesting level,
/// opacity, blend mode; per layer and frame 0: cel absent / raw / linked to frame 1.
fn frame_fold<const L: usize>(kind: [u8; L]) {
    let levels: [u16; L] = kani::any();
    let flags: [u16; L] = kani::any();
    kani::assume(is_forest(&levels));
    let mut lv = Vec::with_capacity(L);
    let mut lop = [0u8; L];
    let mut modes = [BlendMode::Normal; L];
    for i in 0..L {
        lop[i] = kani::any();
        modes[i] = any_blend_mode();
        lv.push(mk_layer(flags[i] as u32, levels[i], modes[i], lop[i], LayerType::Image));
    }
    let ld = LayersData::from_vec(lv).unwrap();
    // kind (concrete per harness, so that enum discriminants stay concrete): 0 absent, 1 raw, 2 linked to frame 1
    let mut px0 = [Rgba([0u8; 4]); L];
    let mut px1 = [Rgba([0u8; 4]); L];
    let mut cop0 = [0u8; L];
    let mut cop1 = [0u8; L];
    let mut f0: Vec<Option<RawCel<Pixels>>> = Vec::with_capacity(L);
    let mut f1: Vec<Option<RawCel<Pixels>>> = Vec::with_capacity(L);
    for i in 0..L {
        px0[i] = any_px();
        px1[i] = any_px();
        cop0[i] = kani::any();
        cop1[i] = kani::any();
        match kind[i] {
            0 => {
                f0.push(None);
                f1.push(None);
            }
            1 => {
                f0.push(Some(raw_cel_1px(i as u16, 0, 0, cop0[i], px0[i])));
                f1.push(None);
            }
            _ => {
                f0.push(Some(linked_cel(i as u16, 0, 0, cop0[i], 1)));
                f1.push(Some(raw_cel_1px(i as u16, 0, 0, cop1[i], px1[i])));
            }
        }
    }
    let cels = mk_cels(vec![f0, f1]);
    let file = mk_file(1, 1, 2, PixelFormat::Rgba, ld, cels, TilesetsById::new(), Vec::new());
    let img = file.frame(0).image();
    assert!(img.width() == 1 && img.height() == 1, "frame image has the canvas dimensions");
    // spec fold
    let mut acc = Rgba([0u8, 0, 0, 0]);
    for i in 0..L {
        if kind[i] == 0 || !spec_visible(&levels, &flags, i) {
            continue;
        }
        let (src, cop) = if kind[i] == 1 { (px0[i], cop0[i]) } else { (px1[i], cop1[i]) };
        acc = spec_blend(modes[i], acc, src, mul8_ref(lop[i], cop));
    }
    let got = *img.get_pixel(0, 0);
    assert!(px_equiv(&got, &acc), "frame pixel == fold of visible layers' cels, bottom to top");
    kani::cover!(spec_visible(&levels, &flags, 0) && spec_visible(&levels, &flags, L - 1), "bottom and top layer visible");
    kani::cover!(levels[L - 1] == 1 && flags[L - 1] & 1 == 1 && flags[L - 2] & 1 == 0, "top layer hidden through its group");
    core::mem::forget(file);
}

#[kani::proof]
#[kani::unwind(5)]
#[kani::stub(alloc::fmt::format, crate::vklib::empty_format)]
#[kani::stub(std::hash::RandomState::new, crate::vklib::fixed_random_state)]
#[kani::stub(crate::file::blend_mode_to_blend_fn, crate::vklib::uf_blend_fn)]
#[kani::stub(crate::tileset::TilesetsById::get, crate::vklib::stub_tilesets_get_none)]
#[kani::stub(crate::palette::ColorPalette::color, crate::vklib::stub_color_none)]
#[kani::stub(crate::file::write_raw_cel_to_image, crate::file::vk_c02::contract_write_raw_cel_1x1)]
#[kani::stub(crate::pixel::Pixels::clone_as_image_rgba, crate::vklib::stub_clone_rgba_only)]
fn c02_t_fold_l2_k01() {
    frame_fold::<2>([0, 1]);
}
#[kani::proof]
#[kani::unwind(5)]
#[kani::stub(alloc::fmt::format, crate::vklib::empty_format)]
#[kani::stub(std::hash::RandomState::new, crate::vklib::fixed_random_state)]
#[kani::stub(crate::file::blend_mode_to_blend_fn, crate::vklib::uf_blend_fn)]
#[kani::stub(crate::tileset::TilesetsById::get, crate::vklib::stub_tilesets_get_none)]
#[kani::stub(crate::palette::ColorPalette::color, crate::vklib::stub_color_none)]
#[kani::stub(crate::file::write_raw_cel_to_image, crate::file::vk_c02::contract_write_raw_cel_1x1)]
#[kani::stub(crate::pixel::Pixels::clone_as_image_rgba, crate::vklib::stub_clone_rgba_only)]
fn c02_t_fold_l2_k02() {
    frame_fold::<2>([0, 2]);
}
#[kani::proof]
#[kani::unwind(5)]
#[kani::stub(alloc::fmt::format, crate::vklib::empty_format)]
#[kani::stub(std::hash::RandomState::new, crate::vklib::fixed_random_state)]
#[kani::stub(crate::file::blend_mode_to_blend_fn, crate::vklib::uf_blend_fn)]
#[kani::stub(crate::tileset::TilesetsById::get, crate::vklib::stub_tilesets_get_none)]
#[kani::stub(crate::palette::ColorPalette::color, crate::vklib::stub_color_none)]
#[kani::stub(crate::file::write_raw_cel_to_image, crate::file::vk_c02::contract_write_raw_cel_1x1)]
#[kani::stub(crate::pixel::Pixels::clone_as_image_rgba, crate::vklib::stub_clone_rgba_only)]
fn c02_t_fold_l2_k10() {
    frame_fold::<2>([1, 0]);
}
#[kani::proof]
#[kani::unwind(5)]
#[kani::stub(alloc::fmt::format, crate::vklib::empty_format)]
#[kani::stub(std::hash::RandomState::new, crate::vklib::fixed_random_state)]
#[kani::stub(crate::file::blend_mode_to_blend_fn, crate::vklib::uf_blend_fn)]
#[kani::stub(crate::tileset::TilesetsById::get, crate::vklib::stub_tilesets_get_none)]
#[kani::stub(crate::palette::ColorPalette::color, crate::vklib::stub_color_none)]
#[kani::stub(crate::file::write_raw_cel_to_image, crate::file::vk_c02::contract_write_raw_cel_1x1)]
#[kani::stub(crate::pixel::Pixels::clone_as_image_rgba, crate::vklib::stub_clone_rgba_only)]
fn c02_q_fold_l2_k11() {
    frame_fold::<2>([1, 1]);
}
#[kani::proof]
#[kani::unwind(5)]
#[kani::stub(alloc::fmt::format, crate::vklib::empty_format)]
#[kani::stub(std::hash::RandomState::new, crate::vklib::fixed_random_state)]
#[kani::stub(crate::file::blend_mode_to_blend_fn, crate::vklib::uf_blend_fn)]
#[kani::stub(crate::tileset::TilesetsById::get, crate::vklib::stub_tilesets_get_none)]
#[kani::stub(crate::palette::ColorPalette::color, crate::vklib::stub_color_none)]
#[kani::stub(crate::file::write_raw_cel_to_image, crate::file::vk_c02::contract_write_raw_cel_1x1)]
#[kani::stub(crate::pixel::Pixels::clone_as_image_rgba, crate::vklib::stub_clone_rgba_only)]
fn c02_q_fold_l2_k12() {
    frame_fold::<2>([1, 2]);
}
#[kani::proof]
#[kani::unwind(5)]
#[kani::stub(alloc::fmt::format, crate::vklib::empty_format)]
#[kani::stub(std::hash::RandomState::new, crate::vklib::fixed_random_state)]
#[kani::stub(crate::file::blend_mode_to_blend_fn, crate::vklib::uf_blend_fn)]
#[kani::stub(crate::tileset::TilesetsById::get, crate::vklib::stub_tilesets_get_none)]
#[kani::stub(crate::palette::ColorPalette::color, crate::vklib::stub_color_none)]
#[kani::stub(crate::file::write_raw_cel_to_image, crate::file::vk_c02::contract_write_raw_cel_1x1)]
#[kani::stub(crate::pixel::Pixels::clone_as_image_rgba, crate::vklib::stub_clone_rgba_only)]
fn c02_t_fold_l2_k20() {
    frame_fold::<2>([2, 0]);
}
#[kani::proof]
#[kani::unwind(5)]
#[kani::stub(alloc::fmt::format, crate::vklib::empty_format)]
#[kani::stub(std::hash::RandomState::new, crate::vklib::fixed_random_state)]
#[kani::stub(crate::file::blend_mode_to_blend_fn, crate::vklib::uf_blend_fn)]
#[kani::stub(crate::tileset::TilesetsById::get, crate::vklib::stub_tilesets_get_none)]
#[kani::stub(crate::palette::ColorPalette::color, crate::vklib::stub_color_none)]
#[kani::stub(crate::file::write_raw_cel_to_image, crate::file::vk_c02::contract_write_raw_cel_1x1)]
#[kani::stub(crate::pixel::Pixels::clone_as_image_rgba, crate::vklib::stub_clone_rgba_only)]
fn c02_q_fold_l2_k21() {
    frame_fold::<2>([2, 1]);
}
#[kani::proof]
#[kani::unwind(5)]
#[kani::stub(alloc::fmt::format, crate::vklib::empty_format)]
#[kani::stub(std::hash::RandomState::new, crate::vklib::fixed_random_state)]
#[kani::stub(crate::file::blend_mode_to_blend_fn, crate::vklib::uf_blend_fn)]
#[kani::stub(crate::tileset::TilesetsById::get, crate::vklib::stub_tilesets_get_none)]
#[kani::stub(crate::palette::ColorPalette::color, crate::vklib::stub_color_none)]
#[kani::stub(crate::file::write_raw_cel_to_image, crate::file::vk_c02::contract_write_raw_cel_1x1)]
#[kani::stub(crate::pixel::Pixels::clone_as_image_rgba, crate::vklib::stub_clone_rgba_only)]
fn c02_t_fold_l2_k22() {
    frame_fold::<2>([2, 2]);
}
#[kani::proof]
#[kani::unwind(6)]
#[kani::stub(alloc::fmt::format, crate::vklib::empty_format)]
#[kani::stub(std::hash::RandomState::new, crate::vklib::fixed_random_state)]
#[kani::stub(crate::file::blend_mode_to_blend_fn, crate::vklib::uf_blend_fn)]
#[kani::stub(crate::tileset::TilesetsById::get, crate::vklib::stub_tilesets_get_none)]
#[kani::stub(crate::palette::ColorPalette::color, crate::vklib::stub_color_none)]
#[kani::stub(crate::file::write_raw_cel_to_image, crate::file::vk_c02::contract_write_raw_cel_1x1)]
#[kani::stub(crate::pixel::Pixels::clone_as_image_rgba, crate::vklib::stub_clone_rgba_only)]
fn c02_t_fold_l3_k111() {
    frame_fold::<3>([1, 1, 1]);
}
#[kani::proof]
#[kani::unwind(6)]
#[kani::stub(alloc::fmt::format, crate::vklib::empty_format)]
#[kani::stub(std::hash::RandomState::new, crate::vklib::fixed_random_state)]
#[kani::stub(crate::file::blend_mode_to_blend_fn, crate::vklib::uf_blend_fn)]
#[kani::stub(crate::tileset::TilesetsById::get, crate::vklib::stub_tilesets_get_none)]
#[kani::stub(crate::palette::ColorPalette::color, crate::vklib::stub_color_none)]
#[kani::stub(crate::file::write_raw_cel_to_image, crate::file::vk_c02::contract_write_raw_cel_1x1)]
#[kani::stub(crate::pixel::Pixels::clone_as_image_rgba, crate::vklib::stub_clone_rgba_only)]
fn c02_t_fold_l3_k121() {
    frame_fold::<3>([1, 2, 1]);
}
#[kani::proof]
#[kani::unwind(6)]
#[kani::stub(alloc::fmt::format, crate::vklib::empty_format)]
#[kani::stub(std::hash::RandomState::new, crate::vklib::fixed_random_state)]
#[kani::stub(crate::file::blend_mode_to_blend_fn, crate::vklib::uf_blend_fn)]
#[kani::stub(crate::tileset::TilesetsById::get, crate::vklib::stub_tilesets_get_none)]
#[kani::stub(crate::palette::ColorPalette::color, crate::vklib::stub_color_none)]
#[kani::stub(crate::file::write_raw_cel_to_image, crate::file::vk_c02::contract_write_raw_cel_1x1)]
#[kani::stub(crate::pixel::Pixels::clone_as_image_rgba, crate::vklib::stub_clone_rgba_only)]
fn c02_t_fold_l3_k212() {
    frame_fold::<3>([2, 1, 2]);
}
#[kani::proof]
#[kani::unwind(6)]
#[kani::stub(alloc::fmt::format, crate::vklib::empty_format)]
#[kani::stub(std::hash::RandomState::new, crate::vklib::fixed_random_state)]
#[kani::stub(crate::file::blend_mode_to_blend_fn, crate::vklib::uf_blend_fn)]
#[kani::stub(crate::tileset::TilesetsById::get, crate::vklib::stub_tilesets_get_none)]
#[kani::stub(crate::palette::ColorPalette::color, crate::vklib::stub_color_none)]
#[kani::stub(crate::file::write_raw_cel_to_image, crate::file::vk_c02::contract_write_raw_cel_1x1)]
#[kani::stub(crate::pixel::Pixels::clone_as_image_rgba, crate::vklib::stub_clone_rgba_only)]
fn c02_t_fold_l3_k012() {
    frame_fold::<3>([0, 1, 2]);
}
#[kani::proof]
#[kani::unwind(6)]
#[kani::stub(alloc::fmt::format, crate::vklib::empty_format)]
#[kani::stub(std::hash::RandomState::new, crate::vklib::fixed_random_state)]
#[kani::stub(crate::file::blend_mode_to_blend_fn, crate::vklib::uf_blend_fn)]
#[kani::stub(crate::tileset::TilesetsById::get, crate::vklib::stub_tilesets_get_none)]
#[kani::stub(crate::palette::ColorPalette::color, crate::vklib::stub_color_none)]
#[kani::stub(crate::file::write_raw_cel_to_image, crate::file::vk_c02::contract_write_raw_cel_1x1)]
#[kani::stub(crate::pixel::Pixels::clone_as_image_rgba, crate::vklib::stub_clone_rgba_only)]
fn c02_t_fold_l3_k201() {
    frame_fold::<3>([2, 0, 1]);
}
#[kani::proof]
#[kani::unwind(6)]
#[kani::stub(alloc::fmt::format, crate::vklib::empty_format)]
#[kani::stub(std::hash::RandomState::new, crate::vklib::fixed_random_state)]
#[kani::stub(crate::file::blend_mode_to_blend_fn, crate::vklib::uf_blend_fn)]
#[kani::stub(crate::tileset::TilesetsById::get, crate::vklib::stub_tilesets_get_none)]
#[kani::stub(crate::palette::ColorPalette::color, crate::vklib::stub_color_none)]
#[kani::stub(crate::file::write_raw_cel_to_image, crate::file::vk_c02::contract_write_raw_cel_1x1)]
#[kani::stub(crate::pixel::Pixels::clone_as_image_rgba, crate::vklib::stub_clone_rgba_only)]
fn c02_t_fold_l3_k110() {
    frame_fold::<3>([1, 1, 0]);
}
#[kani::proof]
#[kani::unwind(6)]
#[kani::stub(alloc::fmt::format, crate::vklib::empty_format)]
#[kani::stub(std::hash::RandomState::new, crate::vklib::fixed_random_state)]
#[kani::stub(crate::file::blend_mode_to_blend_fn, crate::vklib::uf_blend_fn)]
#[kani::stub(crate::tileset::TilesetsById::get, crate::vklib::stub_tilesets_get_none)]
#[kani::stub(crate::palette::ColorPalette::color, crate::vklib::stub_color_none)]
#[kani::stub(crate::file::write_raw_cel_to_image, crate::file::vk_c02::contract_write_raw_cel_1x1)]
#[kani::stub(crate::pixel::Pixels::clone_as_image_rgba, crate::vklib::stub_clone_rgba_only)]
fn c02_t_fold_l3_k222() {
    frame_fold::<3>([2, 2, 2]);
}

static mut GATE_REC: [u16; 8] = [0; 8];
static mut GATE_N: usize = 0;
/// Recording stand-in for write_cel in the gate harnesses: notes which layer's cel frame_image decided to draw, in
/// order (what write_cel does with it is decided by the fold harnesses with the real write_cel).
pub(crate) fn recording_write_cel(_this: &AsepriteFile, _image: &mut RgbaImage, cel: &RawCel<Pixels>) {
    unsafe {
        assert!(GATE_N < 8);
        GATE_REC[GATE_N] = cel.data.layer_index;
        GATE_N += 1;
    }
}

/// U3b: the gate and order of frame_image alone, for deeper nesting: L layers (symbolic flags, forest levels), each
/// with a raw 1x1 cel or none (symbolic). Under Kani write_cel is the recorder above and the drawn sequence must be
/// exactly the layers that have a cel AND are visible through ALL their ancestors, in index order; in a native replay
/// (no stubs) the same is observed through the image: fold of the real Normal blend over those layers.
fn frame_gate<const L: usize>() {
    let levels: [u16; L] = kani::any();
    let flags: [u16; L] = kani::any();
    kani::assume(is_forest(&levels));
    let mut lv = Vec::with_capacity(L);
    let mut has = [false; L];
    let mut px = [Rgba([0u8; 4]); L];
    let mut f0: Vec<Option<RawCel<Pixels>>> = Vec::with_capacity(L);
    for i in 0..L {
        lv.push(mk_layer(flags[i] as u32, levels[i], BlendMode::Normal, 255, LayerType::Image));
        has[i] = kani::any();
        px[i] = any_px();
        f0.push(if has[i] { Some(raw_cel_1px(i as u16, 0, 0, 255, px[i])) } else { None });
    }
    let ld = LayersData::from_vec(lv).unwrap();
    let file = mk_file(1, 1, 1, PixelFormat::Rgba, ld, mk_cels(vec![f0]), TilesetsById::new(), Vec::new());
    let img = file.frame(0).image();
    if !cfg!(test) {
        let mut k = 0;
        for i in 0..L {
            if has[i] && spec_visible(&levels, &flags, i) {
                assert!(unsafe { k < GATE_N && GATE_REC[k] as usize == i }, "frame_image draws exactly the cels of layers visible through all ancestors, bottom to top");
                k += 1;
            }
        }
        assert!(unsafe { GATE_N } == k, "and nothing else");
    } else {
        let mut acc = Rgba([0u8, 0, 0, 0]);
        for i in 0..L {
            if has[i] && spec_visible(&levels, &flags, i) {
                acc = crate::blend::normal(acc, px[i], 255);
            }
        }
        assert!(px_equiv(img.get_pixel(0, 0), &acc), "frame pixel == fold of the cels of layers visible through all ancestors");
    }
    kani::cover!(has[L - 1] && levels[L - 1] == 2 && flags[L - 1] & 1 == 1 && flags[L - 2] & 1 == 1 && flags[L - 3] & 1 == 0,
        "hidden through a grandparent only");
    kani::cover!(has[0] && has[L - 1] && spec_visible(&levels, &flags, L - 1));
    core::mem::forget(file);
}
macro_rules! gate_harness {
    ($name:ident, $l:expr, $unw:expr) => {
        #[kani::proof]
        #[kani::unwind($unw)]
        #[kani::stub(alloc::fmt::format, crate::vklib::empty_format)]
        #[kani::stub(std::hash::RandomState::new, crate::vklib::fixed_random_state)]
        #[kani::stub(crate::file::AsepriteFile::write_cel, crate::file::vk_c02::recording_write_cel)]
        #[kani::stub(crate::vklib::stubs_probe, crate::vklib::stubs_probe_stubbed)]
        fn $name() {
            frame_gate::<$l>();
        }
    };
}
gate_harness!(c02_q_frame_gate_l3, 3, 6);
gate_harness!(c02_t_frame_gate_l4, 4, 7);
gate_harness!(c02_t_frame_gate_l5, 5, 8);

/// U4: the per-frame cel table makes the order of cel chunks irrelevant: three cels for layers {0,1,2} inserted in
/// the given order (concrete per harness: a symbolic layer index would make the table resize symbolic-length),
/// symbolic cel contents; frame_cels yields them in ascending layer order.
fn storage_order(order: [u8; 3]) {
    let marks: [i16; 3] = kani::any();
    let mut cels: CelsData<u8> = CelsData::new(1);
    for k in 0..3 {
        let l = order[k] as usize;
        let c = RawCel {
            data: CelCommon { layer_index: l as u16, x: marks[l], y: 0, opacity: 255 },
            content: CelContent::Linked(0),
            user_data: None,
        };
        let r = cels.add_cel(0, c);
        assert!(r.is_ok());
        core::mem::forget(r);
    }
    let mut n = 0;
    for (lid, c) in cels.frame_cels(0) {
        assert!(lid as usize == n, "cels come out in ascending layer order");
        assert!(c.data.layer_index as usize == n && c.data.x == marks[n], "each layer slot holds that layer's cel");
        n += 1;
    }
    assert!(n == 3);
    kani::cover!(marks[0] == 7 && marks[2] == -7);
    core::mem::forget(cels);
}
macro_rules! order_harness {
    ($name:ident, $o:expr) => {
        #[kani::proof]
        #[kani::unwind(6)]
        #[kani::stub(alloc::fmt::format, crate::vklib::empty_format)]
        fn $name() {
            storage_order($o);
        }
    };
}
order_harness!(c02_q_cel_order_201, [2, 0, 1]);
order_harness!(c02_q_cel_order_120, [1, 2, 0]);
order_harness!(c02_t_cel_order_012, [0, 1, 2]);
order_harness!(c02_t_cel_order_021, [0, 2, 1]);
order_harness!(c02_t_cel_order_102, [1, 0, 2]);
order_harness!(c02_t_cel_order_210, [2, 1, 0]);
