//! C14 — the result is independent of reader behaviour; I/O errors are returned.
use super::*;
use crate::vklib::*;
use std::error::Error;

/// every AseReader primitive over a choppy reader (one byte per call, or <= 3 bytes per call with an Interrupted
/// result on every 2nd call) returns what the in-memory slice reader returns and leaves the stream at the same place
fn primitives(max: usize, interrupt_every: usize) {
    let mut d: [u8; 20] = kani::any();
    d[11] = 2; // string: 2 symbolic ASCII bytes
    d[12] = 0;
    kani::assume(d[13] < 0x80 && d[14] < 0x80);
    let mut a = AseReader::with(ChoppyReader { data: &d, pos: 0, max, calls: 0, interrupt_every });
    let mut b = AseReader::new(&d);
    assert!(a.byte().ok() == b.byte().ok(), "byte");
    assert!(a.word().ok() == b.word().ok(), "word");
    assert!(a.short().ok() == b.short().ok(), "short");
    assert!(a.dword().ok() == b.dword().ok(), "dword");
    let (sa, sb) = (a.skip_reserved(2), b.skip_reserved(2));
    assert!(sa.is_ok() && sb.is_ok(), "skip");
    let (ta, tb) = (a.string(), b.string());
    match (&ta, &tb) {
        (Ok(x), Ok(y)) => assert!(x.len() == 2 && y.len() == 2 && x.as_bytes()[0] == y.as_bytes()[0] && x.as_bytes()[1] == y.as_bytes()[1], "string"),
        _ => assert!(false, "string reads succeed"),
    }
    assert!(a.long().ok() == b.long().ok(), "long");
    let (mut xa, mut xb) = ([0u8; 1], [0u8; 1]);
    assert!(a.read_exact(&mut xa).is_ok() && b.read_exact(&mut xb).is_ok() && xa[0] == xb[0] && xa[0] == d[19], "read_exact: same final position");
    assert!(a.byte().is_err() && b.byte().is_err(), "both at end of input");
    kani::cover!(d[0] == 9 && d[19] == 7);
    core::mem::forget(ta);
    core::mem::forget(tb);
}
#[kani::proof]
#[kani::unwind(8)]
#[kani::stub(alloc::fmt::format, crate::vklib::empty_format)]
fn c14_q_primitives_one_byte_at_a_time() {
    primitives(1, 0);
}
#[kani::proof]
#[kani::unwind(8)]
#[kani::stub(alloc::fmt::format, crate::vklib::empty_format)]
fn c14_q_primitives_three_bytes_interrupted() {
    primitives(3, 2);
}

/// take_bytes over a choppy reader
#[kani::proof]
#[kani::unwind(40)]
#[kani::stub(alloc::fmt::format, crate::vklib::empty_format)]
fn c14_t_take_bytes_one_byte_at_a_time() {
    let d: [u8; 6] = kani::any();
    let a = AseReader::with(ChoppyReader { data: &d, pos: 0, max: 1, calls: 0, interrupt_every: 0 });
    let b = AseReader::new(&d);
    let (ra, rb) = (a.take_bytes(6), b.take_bytes(6));
    match (&ra, &rb) {
        (Ok(x), Ok(y)) => {
            assert!(x.len() == 6 && y.len() == 6);
            for i in 0..6 {
                assert!(x[i] == y[i] && x[i] == d[i]);
            }
        }
        _ => assert!(false, "take_bytes succeeds on both readers"),
    }
    kani::cover!(d[5] == 1);
    core::mem::forget(ra);
    core::mem::forget(rb);
}

/// a hard I/O error at a symbolic byte offset: the primitive in progress returns the IoError variant carrying that
/// error kind, and Error::source() exposes it
#[kani::proof]
#[kani::unwind(8)]
#[kani::stub(alloc::fmt::format, crate::vklib::empty_format)]
fn c14_q_io_error_is_returned_with_source() {
    let d: [u8; 12] = kani::any();
    let at: usize = kani::any();
    kani::assume(at < 12);
    let kind = any_error_kind();
    let mut a = AseReader::with(LimitReader { data: &d, pos: 0, limit: at, fault: Some(kind) });
    let r = a.dword().and_then(|_| a.word()).and_then(|_| a.short()).and_then(|_| a.byte()).and_then(|_| a.skip_reserved(3));
    match &r {
        Ok(_) => assert!(false, "the fault lies inside the bytes that were requested"),
        Err(AsepriteParseError::IoError(e)) => {
            assert!(e.kind() == kind, "the reader's error kind is preserved");
        }
        Err(_) => assert!(false, "an I/O failure is reported as the IoError variant"),
    }
    let e = r.err().unwrap();
    assert!(e.source().is_some(), "Error::source() exposes the I/O error");
    kani::cover!(at == 0);
    kani::cover!(at == 11);
    core::mem::forget(e);
}
