//! C14 — the result is independent of reader behaviour; I/O errors are returned.
use super::*;
use crate::vklib::*;
use std::error::Error;

/// every AseReader primitive over a choppy reader (one byte per call) returns what the in-memory slice reader returns and leaves the stream at the same place
fn primitives(max: usize, interrupt_every: usize) {
    let mut d: [u8; 20] = kani::any();
    d[11] = 2; // string: 2 symbolic ASCII bytes
    d[12] = 0;
    kani::assume(d[13] < 0x80 && d[14] < 0x80);
    let mut a = AseReader::with(ChoppyReader { data: &d, pos: 0, max, calls: 0, interrupt_every });
    let mut b = AseReader::new(&d);
    assert!(a.byte().ok() == b.byte().ok(), "byte");
    assert!(a.word().ok() == b.word().ok(), "word");
    assert!(a.short().ok() == b.short().ok(), "short");
    assert!(a.dword().ok() == b.dword().ok(), "dword");
    let (sa, sb) = (a.skip_reserved(2), b.skip_reserved(2));
    assert!(sa.is_ok() && sb.is_ok(), "skip");
    let (ta, tb) = (a.string(), b.string());
    match (&ta, &tb) {
        (Ok(x), Ok(y)) => assert!(x.len() == 2 && y.len() == 2 && x.as_bytes()[0] == y.as_bytes()[0] && x.as_bytes()[1] == y.as_bytes()[1], "string"),
        _ => assert!(false, "string reads succeed"),
    }
    assert!(a.long().ok() == b.long().ok(), "long");
    let (mut xa, mut xb) = ([0u8; 1], [0u8; 1]);
    assert!(a.read_exact(&mut xa).is_ok() && b.read_exact(&mut xb).is_ok() && xa[0] == xb[0] && xa[0] == d[19], "read_exact: same final position");
    assert!(a.byte().is_err() && b.byte().is_err(), "both at end of input");
    kani::cover!(d[0] == 9 && d[19] == 7);
    core::mem::forget(ta);
    core::mem::forget(tb);
}
#[kani::proof]
#[kani::unwind(8)]
#[kani::stub(alloc::fmt::format, crate::vklib::empty_format)]
fn c14_q_primitives_one_byte_at_a_time() {
    primitives(1, 0);
}

/// transient Interrupted results (the read calls selected by `mask` fail once each, `max` bytes per successful call): one
/// AseReader primitive returns what the in-memory slice reader returns and leaves the stream at the same place.
/// std's read_exact is modelled by RetryReader::read_exact (its documented contract, never materialising the transient
/// error value); code that calls `read` itself sees the Interrupted result.
macro_rules! interrupted {
    ($name:ident, $unwind:expr, $max:expr, $mask:expr, |$a:ident, $b:ident| $op:expr, $same:expr) => {
        #[kani::proof]
        #[kani::unwind($unwind)]
        #[kani::stub(alloc::fmt::format, crate::vklib::empty_format)]
        fn $name() {
            let mut d: [u8; 8] = kani::any();
            d[0] = 2; // for string(): 2 symbolic ASCII bytes
            d[1] = 0;
            kani::assume(d[2] < 0x80 && d[3] < 0x80);
            let mut ra = AseReader::with(RetryReader { data: &d, pos: 0, max: $max, calls: 0, mask: $mask, interrupts: 0 });
            let mut rb = AseReader::new(&d);
            let (x, y) = {
                let ($a, $b) = (&mut ra, &mut rb);
                $op
            };
            let same: bool = match (&x, &y) {
                (Ok(p), Ok(q)) => $same(p, q),
                _ => false,
            };
            assert!(same, "an interrupted read is retried: same value as the in-memory reader");
            let (n1, n2) = (ra.byte(), rb.byte());
            assert!(n1.is_ok() && n1.as_ref().ok() == n2.as_ref().ok(), "same stream position afterwards");
            kani::cover!(d[7] == 9);
            core::mem::forget((x, y, n1, n2));
        }
    };
}
fn eq<T: PartialEq>(p: &T, q: &T) -> bool {
    p == q
}
fn eq_str2(p: &String, q: &String) -> bool {
    p.len() == 2 && q.len() == 2 && p.as_bytes()[0] == q.as_bytes()[0] && p.as_bytes()[1] == q.as_bytes()[1]
}
interrupted!(c14_q_interrupted_byte, 6, 1, 0b1, |a, b| (a.byte(), b.byte()), eq);
interrupted!(c14_q_interrupted_word, 8, 1, 0b101, |a, b| (a.word(), b.word()), eq);
interrupted!(c14_q_interrupted_short, 8, 1, 0b10, |a, b| (a.short(), b.short()), eq);
interrupted!(c14_q_interrupted_dword, 12, 1, 0b1010101, |a, b| (a.dword(), b.dword()), eq);
interrupted!(c14_q_interrupted_long, 12, 2, 0b11, |a, b| (a.long(), b.long()), eq);
interrupted!(c14_q_interrupted_skip_reserved, 12, 1, 0b10101, |a, b| (a.skip_reserved(3), b.skip_reserved(3)), eq);
interrupted!(c14_q_interrupted_string, 12, 1, 0b101010, |a, b| (a.string(), b.string()), eq_str2);
interrupted!(c14_q_interrupted_read_exact, 12, 1, 0b1001, |a, b| { let (mut u, mut v) = ([0u8; 3], [0u8; 3]); (a.read_exact(&mut u).map(|_| u), b.read_exact(&mut v).map(|_| v)) }, eq_arr3);
interrupted!(c14_t_interrupted_dword_whole_then_retry, 12, 4, 0b1, |a, b| (a.dword(), b.dword()), eq);
interrupted!(c14_t_interrupted_skip_reserved_mid, 12, 2, 0b10, |a, b| (a.skip_reserved(4), b.skip_reserved(4)), eq);
interrupted!(c14_t_interrupted_string_payload, 12, 2, 0b110, |a, b| (a.string(), b.string()), eq_str2);
fn eq_arr3(p: &[u8; 3], q: &[u8; 3]) -> bool {
    p[0] == q[0] && p[1] == q[1] && p[2] == q[2]
}

/// take_bytes over a choppy reader
#[kani::proof]
#[kani::unwind(40)]
#[kani::stub(alloc::fmt::format, crate::vklib::empty_format)]
fn c14_t_take_bytes_one_byte_at_a_time() {
    let d: [u8; 6] = kani::any();
    let a = AseReader::with(ChoppyReader { data: &d, pos: 0, max: 1, calls: 0, interrupt_every: 0 });
    let b = AseReader::new(&d);
    let (ra, rb) = (a.take_bytes(6), b.take_bytes(6));
    match (&ra, &rb) {
        (Ok(x), Ok(y)) => {
            assert!(x.len() == 6 && y.len() == 6);
            for i in 0..6 {
                assert!(x[i] == y[i] && x[i] == d[i]);
            }
        }
        _ => assert!(false, "take_bytes succeeds on both readers"),
    }
    kani::cover!(d[5] == 1);
    core::mem::forget(ra);
    core::mem::forget(rb);
}

/// the conversion itself: an io::Error becomes the IoError variant carrying it, and Error::source() exposes it
#[kani::proof]
#[kani::unwind(4)]
#[kani::stub(alloc::fmt::format, crate::vklib::empty_format)]
fn c14_q_io_error_conversion_and_source() {
    let e = std::io::Error::from(std::io::ErrorKind::TimedOut);
    let a: AsepriteParseError = e.into();
    match &a {
        AsepriteParseError::IoError(x) => assert!(x.kind() == std::io::ErrorKind::TimedOut, "the reader's error kind is preserved"),
        _ => assert!(false, "an I/O failure is reported as the IoError variant"),
    }
    assert!(a.source().is_some(), "Error::source() exposes the I/O error");
    let b = AsepriteParseError::InvalidInput(String::new());
    assert!(b.source().is_none());
    kani::cover!(true);
    core::mem::forget(a);
    core::mem::forget(b);
}

/// the same for the kinds that also name parse errors (InvalidData): still the IoError variant with a source
#[kani::proof]
#[kani::unwind(4)]
#[kani::stub(alloc::fmt::format, crate::vklib::empty_format)]
fn c14_q_io_error_conversion_invalid_data() {
    let e = std::io::Error::from(std::io::ErrorKind::InvalidData);
    let a: AsepriteParseError = e.into();
    match &a {
        AsepriteParseError::IoError(x) => assert!(x.kind() == std::io::ErrorKind::InvalidData, "the reader's error kind is preserved"),
        _ => assert!(false, "an I/O failure is reported as the IoError variant"),
    }
    assert!(a.source().is_some(), "Error::source() exposes the I/O error");
    kani::cover!(true);
    core::mem::forget(a);
}

/// a hard I/O error on the first read: the primitive returns the IoError variant carrying that kind
#[kani::proof]
#[kani::unwind(6)]
#[kani::stub(alloc::fmt::format, crate::vklib::empty_format)]
fn c14_q_io_error_from_reader_is_returned() {
    let d: [u8; 4] = kani::any();
    let mut a = AseReader::with(LimitReader { data: &d, pos: 0, limit: 2, fault: Some(std::io::ErrorKind::BrokenPipe) });
    let r = a.dword();
    match &r {
        Ok(_) => assert!(false, "the fault lies inside the bytes that were requested"),
        Err(AsepriteParseError::IoError(e)) => assert!(e.kind() == std::io::ErrorKind::BrokenPipe, "the reader's error kind is preserved"),
        Err(_) => assert!(false, "an I/O failure is reported as the IoError variant"),
    }
    kani::cover!(true);
    core::mem::forget(r);
}

/// a hard I/O error (concrete kind) at byte offset `$limit` of the input, inside the bytes one primitive asks for: the
/// primitive returns the IoError variant carrying that kind. (The kind and the offset are concrete per harness:
/// Result<_, io::Error> is a nullable tagged pointer, and with symbolic bits CBMC cannot resolve Ok/Err during symbolic
/// execution, so it would follow the Ok continuation with unconstrained lengths as well.)
macro_rules! hard_error {
    ($name:ident, $unwind:expr, $limit:expr, $kind:expr, |$a:ident| $op:expr) => {
        #[kani::proof]
        #[kani::unwind($unwind)]
        #[kani::stub(alloc::fmt::format, crate::vklib::empty_format)]
        fn $name() {
            let mut d: [u8; 8] = kani::any();
            d[0] = 2; // for string(): 2 ASCII bytes
            d[1] = 0;
            kani::assume(d[2] < 0x80 && d[3] < 0x80);
            let mut ra = AseReader::with(LimitReader { data: &d, pos: 0, limit: $limit, fault: Some($kind) });
            let r = {
                let $a = &mut ra;
                $op
            };
            match &r {
                Ok(_) => assert!(false, "the fault lies inside the bytes that were requested"),
                Err(AsepriteParseError::IoError(e)) => assert!(e.kind() == $kind, "the reader's error kind is preserved"),
                Err(_) => assert!(false, "an I/O failure is reported as the IoError variant"),
            }
            kani::cover!(d[7] == 9);
            core::mem::forget(r);
        }
    };
}
hard_error!(c14_q_hard_error_byte, 6, 0, std::io::ErrorKind::TimedOut, |a| a.byte());
hard_error!(c14_q_hard_error_word, 6, 1, std::io::ErrorKind::PermissionDenied, |a| a.word());
hard_error!(c14_q_hard_error_short, 6, 0, std::io::ErrorKind::ConnectionReset, |a| a.short());
hard_error!(c14_q_hard_error_long, 6, 3, std::io::ErrorKind::NotFound, |a| a.long());
hard_error!(c14_q_hard_error_skip_reserved, 8, 4, std::io::ErrorKind::Other, |a| a.skip_reserved(6));
hard_error!(c14_q_hard_error_string_length, 8, 1, std::io::ErrorKind::InvalidData, |a| a.string());
hard_error!(c14_q_hard_error_string_payload, 8, 3, std::io::ErrorKind::InvalidInput, |a| a.string());
hard_error!(c14_q_hard_error_read_exact, 8, 2, std::io::ErrorKind::BrokenPipe, |a| { let mut u = [0u8; 3]; a.read_exact(&mut u) });
