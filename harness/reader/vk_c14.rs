//! C14 — the result is independent of reader behaviour; I/O errors are returned.
use super::*;
use crate::vklib::*;
use std::error::Error;

/// every AseReader primitive over a choppy reader (one byte per call) returns what the in-memory slice reader returns and leaves the stream at the same place
fn primitives(max: usize, interrupt_every: usize) {
    let mut d: [u8; 20] = kani::any();
    d[11] = 2; // string: 2 symbolic ASCII bytes
    d[12] = 0;
    kani::assume(d[13] < 0x80 && d[14] < 0x80);
    let mut a = AseReader::with(ChoppyReader { data: &d, pos: 0, max, calls: 0, interrupt_every });
    let mut b = AseReader::new(&d);
    assert!(a.byte().ok() == b.byte().ok(), "byte");
    assert!(a.word().ok() == b.word().ok(), "word");
    assert!(a.short().ok() == b.short().ok(), "short");
    assert!(a.dword().ok() == b.dword().ok(), "dword");
    let (sa, sb) = (a.skip_reserved(2), b.skip_reserved(2));
    assert!(sa.is_ok() && sb.is_ok(), "skip");
    let (ta, tb) = (a.string(), b.string());
    match (&ta, &tb) {
        (Ok(x), Ok(y)) => assert!(x.len() == 2 && y.len() == 2 && x.as_bytes()[0] == y.as_bytes()[0] && x.as_bytes()[1] == y.as_bytes()[1], "string"),
        _ => assert!(false, "string reads succeed"),
    }
    assert!(a.long().ok() == b.long().ok(), "long");
    let (mut xa, mut xb) = ([0u8; 1], [0u8; 1]);
    assert!(a.read_exact(&mut xa).is_ok() && b.read_exact(&mut xb).is_ok() && xa[0] == xb[0] && xa[0] == d[19], "read_exact: same final position");
    assert!(a.byte().is_err() && b.byte().is_err(), "both at end of input");
    kani::cover!(d[0] == 9 && d[19] == 7);
    core::mem::forget(ta);
    core::mem::forget(tb);
}
#[kani::proof]
#[kani::unwind(8)]
#[kani::stub(alloc::fmt::format, crate::vklib::empty_format)]
fn c14_q_primitives_one_byte_at_a_time() {
    primitives(1, 0);
}
// Interrupted results: every query in which read_exact's retry loop drops an io::Error value runs out of memory
// under CBMC (tagged-pointer representation of std::io::Error); not decided, see DESIGN.md C14.

/// take_bytes over a choppy reader
#[kani::proof]
#[kani::unwind(40)]
#[kani::stub(alloc::fmt::format, crate::vklib::empty_format)]
fn c14_t_take_bytes_one_byte_at_a_time() {
    let d: [u8; 6] = kani::any();
    let a = AseReader::with(ChoppyReader { data: &d, pos: 0, max: 1, calls: 0, interrupt_every: 0 });
    let b = AseReader::new(&d);
    let (ra, rb) = (a.take_bytes(6), b.take_bytes(6));
    match (&ra, &rb) {
        (Ok(x), Ok(y)) => {
            assert!(x.len() == 6 && y.len() == 6);
            for i in 0..6 {
                assert!(x[i] == y[i] && x[i] == d[i]);
            }
        }
        _ => assert!(false, "take_bytes succeeds on both readers"),
    }
    kani::cover!(d[5] == 1);
    core::mem::forget(ra);
    core::mem::forget(rb);
}

/// the conversion itself: an io::Error becomes the IoError variant carrying it, and Error::source() exposes it
#[kani::proof]
#[kani::unwind(4)]
#[kani::stub(alloc::fmt::format, crate::vklib::empty_format)]
fn c14_q_io_error_conversion_and_source() {
    let e = std::io::Error::from(std::io::ErrorKind::TimedOut);
    let a: AsepriteParseError = e.into();
    match &a {
        AsepriteParseError::IoError(x) => assert!(x.kind() == std::io::ErrorKind::TimedOut, "the reader's error kind is preserved"),
        _ => assert!(false, "an I/O failure is reported as the IoError variant"),
    }
    assert!(a.source().is_some(), "Error::source() exposes the I/O error");
    let b = AsepriteParseError::InvalidInput(String::new());
    assert!(b.source().is_none());
    kani::cover!(true);
    core::mem::forget(a);
    core::mem::forget(b);
}

/// the same for the kinds that also name parse errors (InvalidData): still the IoError variant with a source
#[kani::proof]
#[kani::unwind(4)]
#[kani::stub(alloc::fmt::format, crate::vklib::empty_format)]
fn c14_q_io_error_conversion_invalid_data() {
    let e = std::io::Error::from(std::io::ErrorKind::InvalidData);
    let a: AsepriteParseError = e.into();
    match &a {
        AsepriteParseError::IoError(x) => assert!(x.kind() == std::io::ErrorKind::InvalidData, "the reader's error kind is preserved"),
        _ => assert!(false, "an I/O failure is reported as the IoError variant"),
    }
    assert!(a.source().is_some(), "Error::source() exposes the I/O error");
    kani::cover!(true);
    core::mem::forget(a);
}

/// a hard I/O error on the first read: the primitive returns the IoError variant carrying that kind
#[kani::proof]
#[kani::unwind(6)]
#[kani::stub(alloc::fmt::format, crate::vklib::empty_format)]
fn c14_q_io_error_from_reader_is_returned() {
    let d: [u8; 4] = kani::any();
    let mut a = AseReader::with(LimitReader { data: &d, pos: 0, limit: 2, fault: Some(std::io::ErrorKind::BrokenPipe) });
    let r = a.dword();
    match &r {
        Ok(_) => assert!(false, "the fault lies inside the bytes that were requested"),
        Err(AsepriteParseError::IoError(e)) => assert!(e.kind() == std::io::ErrorKind::BrokenPipe, "the reader's error kind is preserved"),
        Err(_) => assert!(false, "an I/O failure is reported as the IoError variant"),
    }
    kani::cover!(true);
    core::mem::forget(r);
}
