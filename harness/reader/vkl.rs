//! Access to the private reader field for stubs.
use super::*;

impl<T: Read> AseReader<T> {
    /// everything that is left in the underlying reader (used by the identity model of `unzip`)
    pub(crate) fn rest(mut self) -> Result<Vec<u8>> {
        let mut v = Vec::new();
        self.input.read_to_end(&mut v)?;
        Ok(v)
    }
}
