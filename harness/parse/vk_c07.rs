//! C07 — observationally neutral encoding choices do not change the result (parse-module part).
use super::*;
use crate::layer::vkl::*;
use crate::vklib::*;

fn layer_chunk(v: &mut Vec<u8>, attrs: &[u8; 6], extra: usize) {
    // 19 payload bytes (+ `extra` trailing bytes the decoder must ignore)
    put32(v, (19 + extra + 6) as u32);
    put16(v, 0x2004);
    v.push(attrs[0]);
    v.push(attrs[1]);
    put16(v, 0);
    v.push(attrs[2]);
    v.push(attrs[3]);
    put_any(v, 4); // unused default width / height
    put16(v, 0);
    v.push(attrs[4]);
    put_any(v, 3); // reserved
    put16(v, 1);
    v.push(attrs[5] & 0x7f);
    put_any(v, extra);
}
fn frame_of(body: &[u8], old: u16, new: u32) -> Vec<u8> {
    let mut bytes: Vec<u8> = Vec::with_capacity(16 + body.len());
    put32(&mut bytes, 16 + body.len() as u32);
    put16(&mut bytes, 0xF1FA);
    put16(&mut bytes, old);
    put16(&mut bytes, 100);
    put_any(&mut bytes, 2);
    put32(&mut bytes, new);
    bytes.extend_from_slice(body);
    bytes
}
fn parse1(bytes: &[u8]) -> ParseInfo {
    let mut reader = AseReader::with(bytes);
    let mut info = ParseInfo::new(1, 0);
    let r = parse_frame(&mut reader, 0, PixelFormat::Rgba, &mut info);
    assert!(r.is_ok(), "every encoding of the sprite loads");
    core::mem::forget(r);
    info
}
fn same_layer(a: &ParseInfo, b: &ParseInfo) {
    assert!(a.layers.len() == 1 && b.layers.len() == 1);
    let (x, y) = (&a.layers[0], &b.layers[0]);
    assert!(x.flags == y.flags && level_of(x) == level_of(y) && x.opacity == y.opacity && x.blend_mode == y.blend_mode, "same layer attributes");
    assert!(x.name.len() == 1 && y.name.len() == 1 && x.name.as_bytes()[0] == y.name.as_bytes()[0], "same layer name");
    assert!(x.user_data.is_none() && y.user_data.is_none());
    assert!(a.frame_times[0] == b.frame_times[0]);
    assert!(a.slices.len() == b.slices.len() && a.tags.is_none() && b.tags.is_none() && a.palette.is_none() && b.palette.is_none());
    assert!(a.sprite_user_data.is_none() && b.sprite_user_data.is_none());
}

/// which of the two chunk-count fields carries the count; values of unused layer / frame fields; trailing chunk bytes
#[kani::proof]
#[kani::unwind(9)]
#[kani::stub(alloc::fmt::format, crate::vklib::empty_format)]
#[kani::stub(std::hash::RandomState::new, crate::vklib::fixed_random_state)]
fn c07_q_count_field_unused_fields_trailing_bytes() {
    let attrs: [u8; 6] = kani::any();
    let mut b1: Vec<u8> = Vec::with_capacity(48);
    layer_chunk(&mut b1, &attrs, 0);
    let mut b2: Vec<u8> = Vec::with_capacity(48);
    layer_chunk(&mut b2, &attrs, 3);
    let old_any: u16 = kani::any();
    let e1 = frame_of(&b1, 1, 0); // count in the old field
    let e2 = frame_of(&b1, old_any, 1); // count in the new field, old field arbitrary (e.g. 0xFFFF)
    let e3 = frame_of(&b2, 1, 0); // 3 extra bytes at the end of the chunk
    let (i1, i2, i3) = (parse1(&e1), parse1(&e2), parse1(&e3));
    same_layer(&i1, &i2);
    same_layer(&i1, &i3);
    kani::cover!(old_any == 0xffff);
    kani::cover!(old_any == 0);
    core::mem::forget(i1);
    core::mem::forget(i2);
    core::mem::forget(i3);
}

/// ignorable chunks (cel extra / mask / path with symbolic payload, sRGB or "none" colour profile) between a layer and
/// its user data: same parse state as without them
#[kani::proof]
#[kani::unwind(9)]
#[kani::stub(alloc::fmt::format, crate::vklib::empty_format)]
#[kani::stub(std::hash::RandomState::new, crate::vklib::fixed_random_state)]
fn c07_q_ignorable_chunks_and_srgb_profile() {
    let attrs: [u8; 6] = kani::any();
    let col: [u8; 4] = kani::any();
    let mut plain: Vec<u8> = Vec::with_capacity(64);
    layer_chunk(&mut plain, &attrs, 0);
    let mut rich: Vec<u8> = Vec::with_capacity(128);
    // colour profile first: type 0 or 1, flags without the gamma bit
    put32(&mut rich, 16 + 6);
    put16(&mut rich, 0x2007);
    let ty: u16 = kani::any();
    kani::assume(ty <= 1);
    put16(&mut rich, ty);
    let fl: u16 = kani::any();
    put16(&mut rich, fl & !1);
    put_any(&mut rich, 12);
    layer_chunk(&mut rich, &attrs, 0);
    for ign in [0x2006u16, 0x2016, 0x2017] {
        put32(&mut rich, 5 + 6);
        put16(&mut rich, ign);
        put_any(&mut rich, 5);
    }
    for v in [&mut plain, &mut rich] {
        put32(v, 8 + 6);
        put16(v, 0x2020);
        put32(v, 2);
        v.extend_from_slice(&col);
    }
    let (a, b) = (parse1(&frame_of(&plain, 2, 0)), parse1(&frame_of(&rich, 6, 0)));
    assert!(a.layers.len() == 1 && b.layers.len() == 1);
    let (x, y) = (&a.layers[0], &b.layers[0]);
    assert!(x.flags == y.flags && x.opacity == y.opacity && x.name.as_bytes()[0] == y.name.as_bytes()[0]);
    let (ux, uy) = (x.user_data.as_ref().unwrap(), y.user_data.as_ref().unwrap());
    assert!(ux.text.is_none() && uy.text.is_none() && ux.color == uy.color && ux.color == Some(image::Rgba(col)), "the record still belongs to the layer");
    assert!(b.slices.is_empty() && b.tags.is_none() && b.palette.is_none() && b.sprite_user_data.is_none());
    kani::cover!(ty == 1);
    core::mem::forget(a);
    core::mem::forget(b);
}

