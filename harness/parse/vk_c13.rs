//! C13 — truncated files are rejected, never loaded as a smaller sprite; and the parse-level parts of C14.
use super::*;
use crate::layer::vkl::*;
use crate::vklib::*;

fn layer_ud_frame() -> Vec<u8> {
    let mut body: Vec<u8> = Vec::with_capacity(64);
    // layer chunk with symbolic attributes
    put32(&mut body, 19 + 6);
    put16(&mut body, 0x2004);
    put_any(&mut body, 2);
    put16(&mut body, 0);
    put_any(&mut body, 2);
    put_zeros(&mut body, 4);
    put16(&mut body, 0);
    put_any(&mut body, 1);
    put_zeros(&mut body, 3);
    put_any_ascii(&mut body, 1);
    // user data chunk (colour)
    put32(&mut body, 8 + 6);
    put16(&mut body, 0x2020);
    put32(&mut body, 2);
    put_any(&mut body, 4);
    let mut bytes: Vec<u8> = Vec::with_capacity(16 + body.len());
    put32(&mut bytes, 16 + body.len() as u32);
    put16(&mut bytes, 0xF1FA);
    put16(&mut bytes, 2);
    put_any(&mut bytes, 2);
    put16(&mut bytes, 0);
    put32(&mut bytes, 0);
    bytes.extend_from_slice(&body);
    bytes
}

/// a frame (layer + user data) cut at ANY offset before its end is an error value
#[kani::proof]
#[kani::unwind(9)]
#[kani::stub(alloc::fmt::format, crate::vklib::empty_format)]
#[kani::stub(std::hash::RandomState::new, crate::vklib::fixed_random_state)]
fn c13_q_frame_cut_anywhere() {
    let bytes = layer_ud_frame();
    let cut: usize = kani::any();
    kani::assume(cut < bytes.len());
    let mut reader = AseReader::with(LimitReader { data: &bytes[..], pos: 0, limit: cut, fault: None });
    let mut info = ParseInfo::new(1, 100);
    let r = parse_frame(&mut reader, 0, PixelFormat::Rgba, &mut info);
    assert!(r.is_err(), "a frame that ends before its declared end does not parse");
    kani::cover!(cut == 0);
    kani::cover!(cut == 15);
    kani::cover!(cut == 40);
    kani::cover!(cut + 1 == bytes.len());
    core::mem::forget(r);
    core::mem::forget(info);
    core::mem::forget(bytes);
}

/// whole file = header + one empty frame, cut anywhere: error value; uncut: loads
#[kani::proof]
#[kani::unwind(8)]
#[kani::stub(alloc::fmt::format, crate::vklib::empty_format)]
#[kani::stub(std::hash::RandomState::new, crate::vklib::fixed_random_state)]
fn c13_q_file_cut_anywhere() {
    let mut f: [u8; 144] = kani::any();
    f[4] = 0xE0;
    f[5] = 0xA5;
    f[6] = 1;
    f[7] = 0;
    f[12] = 32;
    f[13] = 0;
    f[34] = 1;
    f[35] = 1;
    // frame header: 16 bytes, magic, zero chunks
    f[128] = 16;
    f[129] = 0;
    f[130] = 0;
    f[131] = 0;
    f[132] = 0xFA;
    f[133] = 0xF1;
    f[134] = 0;
    f[135] = 0;
    f[140] = 0;
    f[141] = 0;
    f[142] = 0;
    f[143] = 0;
    let cut: usize = kani::any();
    kani::assume(cut <= 144);
    let r = read_aseprite(LimitReader { data: &f[..], pos: 0, limit: cut, fault: None });
    assert!(r.is_ok() == (cut == 144), "loads iff nothing is missing");
    kani::cover!(cut == 143);
    kani::cover!(cut == 128);
    kani::cover!(cut == 3);
    core::mem::forget(r);
}

/// the header declares two frames, the file holds one: error value (never a one-frame sprite)
#[kani::proof]
#[kani::unwind(8)]
#[kani::stub(alloc::fmt::format, crate::vklib::empty_format)]
#[kani::stub(std::hash::RandomState::new, crate::vklib::fixed_random_state)]
fn c13_q_missing_last_frame() {
    let mut f: [u8; 144] = kani::any();
    f[4] = 0xE0;
    f[5] = 0xA5;
    f[6] = 2;
    f[7] = 0;
    f[12] = 32;
    f[13] = 0;
    f[34] = 1;
    f[35] = 1;
    f[128] = 16;
    f[129] = 0;
    f[130] = 0;
    f[131] = 0;
    f[132] = 0xFA;
    f[133] = 0xF1;
    f[134] = 0;
    f[135] = 0;
    f[140] = 0;
    f[141] = 0;
    f[142] = 0;
    f[143] = 0;
    let r = read_aseprite(&f[..]);
    assert!(r.is_err(), "a file that ends after the first of two declared frames fails to load");
    kani::cover!(true);
    core::mem::forget(r);
}

/// C14 at frame level: one-byte-at-a-time delivery gives the same parsed layer as the slice reader
#[kani::proof]
#[kani::unwind(48)]
#[kani::stub(alloc::fmt::format, crate::vklib::empty_format)]
#[kani::stub(std::hash::RandomState::new, crate::vklib::fixed_random_state)]
fn c14_t_frame_one_byte_at_a_time() {
    let bytes = layer_ud_frame();
    let mut ra = AseReader::with(ChoppyReader { data: &bytes[..], pos: 0, max: 1, calls: 0, interrupt_every: 0 });
    let mut rb = AseReader::with(&bytes[..]);
    let mut ia = ParseInfo::new(1, 100);
    let mut ib = ParseInfo::new(1, 100);
    let a = parse_frame(&mut ra, 0, PixelFormat::Rgba, &mut ia);
    let b = parse_frame(&mut rb, 0, PixelFormat::Rgba, &mut ib);
    assert!(a.is_ok() && b.is_ok());
    let (la, lb) = (&ia.layers[0], &ib.layers[0]);
    assert!(la.flags == lb.flags && level_of(la) == level_of(lb) && la.opacity == lb.opacity && la.name.as_bytes()[0] == lb.name.as_bytes()[0]);
    assert!(ia.frame_times[0] == ib.frame_times[0]);
    assert!(la.user_data.as_ref().map(|u| u.color) == lb.user_data.as_ref().map(|u| u.color));
    kani::cover!(true);
    core::mem::forget(ia);
    core::mem::forget(ib);
    core::mem::forget(bytes);
}

/// C14 at frame level: a hard I/O error at any offset inside a frame surfaces as the IoError variant with that kind
#[kani::proof]
#[kani::unwind(9)]
#[kani::stub(alloc::fmt::format, crate::vklib::empty_format)]
#[kani::stub(std::hash::RandomState::new, crate::vklib::fixed_random_state)]
fn c14_q_frame_io_error_anywhere() {
    let bytes = layer_ud_frame();
    let at: usize = kani::any();
    kani::assume(at < bytes.len());
    let kind = any_error_kind();
    let mut reader = AseReader::with(LimitReader { data: &bytes[..], pos: 0, limit: at, fault: Some(kind) });
    let mut info = ParseInfo::new(1, 100);
    let r = parse_frame(&mut reader, 0, PixelFormat::Rgba, &mut info);
    match &r {
        Err(AsepriteParseError::IoError(e)) => assert!(e.kind() == kind, "the reader's error is returned, with its kind"),
        _ => assert!(false, "an I/O error before the frame is complete is returned as IoError, never a sprite"),
    }
    kani::cover!(at == 0);
    kani::cover!(at == 30);
    core::mem::forget(r);
    core::mem::forget(info);
    core::mem::forget(bytes);
}
