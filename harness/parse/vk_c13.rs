//! C13 — truncated files are rejected, never loaded as a smaller sprite; and the parse-level parts of C14.
use super::*;
use crate::layer::vkl::*;
use crate::vklib::*;

fn layer_ud_frame() -> Vec<u8> {
    let mut body: Vec<u8> = Vec::with_capacity(64);
    // layer chunk with symbolic attributes
    put32(&mut body, 19 + 6);
    put16(&mut body, 0x2004);
    put_any(&mut body, 2);
    put16(&mut body, 0);
    put_any(&mut body, 2);
    put_zeros(&mut body, 4);
    put16(&mut body, 0);
    put_any(&mut body, 1);
    put_zeros(&mut body, 3);
    put_any_ascii(&mut body, 1);
    // user data chunk (colour)
    put32(&mut body, 8 + 6);
    put16(&mut body, 0x2020);
    put32(&mut body, 2);
    put_any(&mut body, 4);
    let mut bytes: Vec<u8> = Vec::with_capacity(16 + body.len());
    put32(&mut bytes, 16 + body.len() as u32);
    put16(&mut bytes, 0xF1FA);
    put16(&mut bytes, 2);
    put_any(&mut bytes, 2);
    put16(&mut bytes, 0);
    put32(&mut bytes, 0);
    bytes.extend_from_slice(&body);
    bytes
}

/// a frame (layer + user data, symbolic contents) cut at the given offsets is an error value. The cut offsets are
/// concrete per harness (a symbolic cut makes every later read position symbolic and the query runs out of
/// memory): together the three quick harnesses cover every read boundary of the frame and one offset inside each read.
fn frame_cut_at<const N: usize>(cuts: [usize; N]) {
    for k in 0..N {
        let bytes = layer_ud_frame();
        let cut = cuts[k];
        assert!(cut < bytes.len());
        // a file cut at `cut` IS the prefix: the in-memory reader over the first `cut` bytes
        let mut reader = AseReader::with(&bytes[..cut]);
        let mut info = ParseInfo::new(1, 100);
        let r = parse_frame(&mut reader, 0, PixelFormat::Rgba, &mut info);
        assert!(r.is_err(), "a frame that ends before its declared end does not parse");
        core::mem::forget(r);
        core::mem::forget(info);
        core::mem::forget(bytes);
    }
    kani::cover!(true);
}
macro_rules! cut_harness {
    ($name:ident, $c:expr) => {
        #[kani::proof]
        #[kani::unwind(9)]
        #[kani::stub(alloc::fmt::format, crate::vklib::empty_format)]
        #[kani::stub(std::hash::RandomState::new, crate::vklib::fixed_random_state)]
        fn $name() {
            frame_cut_at($c);
        }
    };
}
// frame header: 0..4 bytes, 4..6 magic, 6..8 old count, 8..10 duration, 10..12, 12..16 new count
cut_harness!(c13_q_frame_cut_in_frame_header_a, [3]);
cut_harness!(c13_t_frame_cut_at_0, [0]);
cut_harness!(c13_t_frame_cut_in_frame_header_b, [15]);
cut_harness!(c13_t_frame_cut_in_magic, [5]);
// right after the magic / after the old count: nothing that follows may be taken as zero
cut_harness!(c13_q_frame_cut_in_frame_header_c, [6]);
cut_harness!(c13_t_frame_cut_after_old_count, [10]);
// layer chunk: 16..20 size, 20..22 type, 22..41 payload
cut_harness!(c13_q_frame_cut_in_first_chunk_a, [21]);
cut_harness!(c13_t_frame_cut_at_16, [16]);
cut_harness!(c13_q_frame_cut_in_first_chunk_b, [22, 40]);
// user data chunk: 41..45 size, 45..47 type, 47..55 payload
cut_harness!(c13_q_frame_cut_in_second_chunk_a, [46]);
cut_harness!(c13_t_frame_cut_at_41, [41]);
cut_harness!(c13_q_frame_cut_in_second_chunk_b, [47, 54]);
cut_harness!(c13_t_frame_cut_more_offsets_a, [4, 9]);
cut_harness!(c13_t_frame_cut_more_offsets_b, [13, 30]);
cut_harness!(c13_t_frame_cut_more_offsets_c, [43, 52]);

/// whole file = header + one empty frame, cut anywhere: error value; uncut: loads
#[kani::proof]
#[kani::unwind(8)]
#[kani::stub(alloc::fmt::format, crate::vklib::empty_format)]
#[kani::stub(std::hash::RandomState::new, crate::vklib::fixed_random_state)]
fn c13_t_file_cut_anywhere() {
    let mut f: [u8; 144] = kani::any();
    f[4] = 0xE0;
    f[5] = 0xA5;
    f[6] = 1;
    f[7] = 0;
    f[12] = 32;
    f[13] = 0;
    f[34] = 1;
    f[35] = 1;
    // frame header: 16 bytes, magic, zero chunks
    f[128] = 16;
    f[129] = 0;
    f[130] = 0;
    f[131] = 0;
    f[132] = 0xFA;
    f[133] = 0xF1;
    f[134] = 0;
    f[135] = 0;
    f[140] = 0;
    f[141] = 0;
    f[142] = 0;
    f[143] = 0;
    let cut: usize = kani::any();
    kani::assume(cut <= 144);
    let r = read_aseprite(LimitReader { data: &f[..], pos: 0, limit: cut, fault: None });
    assert!(r.is_ok() == (cut == 144), "loads iff nothing is missing");
    kani::cover!(cut == 143);
    kani::cover!(cut == 128);
    kani::cover!(cut == 3);
    core::mem::forget(r);
}

/// a frame whose LAST chunk is an ignorable one (cel extra, symbolic payload), cut inside that payload: still an error
#[kani::proof]
#[kani::unwind(9)]
#[kani::stub(alloc::fmt::format, crate::vklib::empty_format)]
#[kani::stub(std::hash::RandomState::new, crate::vklib::fixed_random_state)]
fn c13_q_frame_cut_in_trailing_ignorable_chunk() {
    const KINDS: [u16; 2] = [0x2006, 0x2017];
    for k in 0..2 {
        let mut body: Vec<u8> = Vec::with_capacity(32);
        put32(&mut body, 8 + 6);
        put16(&mut body, KINDS[k]);
        put_any(&mut body, 8);
        let mut bytes: Vec<u8> = Vec::with_capacity(48);
        put32(&mut bytes, 16 + body.len() as u32);
        put16(&mut bytes, 0xF1FA);
        put16(&mut bytes, 1);
        put_any(&mut bytes, 2);
        put16(&mut bytes, 0);
        put32(&mut bytes, 0);
        bytes.extend_from_slice(&body);
        let cut = [25usize, 29][k];
        let mut reader = AseReader::with(&bytes[..cut]);
        let mut info = ParseInfo::new(1, 100);
        let r = parse_frame(&mut reader, 0, PixelFormat::Rgba, &mut info);
        assert!(r.is_err(), "a frame cut inside an ignorable chunk does not parse");
        core::mem::forget(r);
        core::mem::forget(info);
        core::mem::forget(bytes);
        core::mem::forget(body);
    }
    kani::cover!(true);
}

/// the 128-byte header (symbolic contents) cut at each field boundary of its first 44 bytes, inside the reserved tail
/// and one byte before its end: error value (frame count 0 keeps the query at the header); uncut: loads
#[kani::proof]
#[kani::unwind(8)]
#[kani::stub(alloc::fmt::format, crate::vklib::empty_format)]
#[kani::stub(std::hash::RandomState::new, crate::vklib::fixed_random_state)]
fn c13_q_header_cut_at_field_boundaries() {
    const CUTS: [usize; 4] = [3, 12, 43, 127];
    for k in 0..4 {
        let mut f: [u8; 128] = kani::any();
        f[4] = 0xE0;
        f[5] = 0xA5;
        f[6] = 0;
        f[7] = 0;
        f[12] = 32;
        f[13] = 0;
        f[34] = 1;
        f[35] = 1;
        let r = read_aseprite(&f[..CUTS[k]]);
        assert!(r.is_err(), "a cut header does not load");
        core::mem::forget(r);
    }
    kani::cover!(true);
}

/// the header declares two frames, the file holds one: error value (never a one-frame sprite)
#[kani::proof]
#[kani::unwind(8)]
#[kani::stub(alloc::fmt::format, crate::vklib::empty_format)]
#[kani::stub(std::hash::RandomState::new, crate::vklib::fixed_random_state)]
fn c13_t_missing_last_frame() {
    let mut f: [u8; 144] = kani::any();
    f[4] = 0xE0;
    f[5] = 0xA5;
    f[6] = 2;
    f[7] = 0;
    f[12] = 32;
    f[13] = 0;
    f[34] = 1;
    f[35] = 1;
    f[128] = 16;
    f[129] = 0;
    f[130] = 0;
    f[131] = 0;
    f[132] = 0xFA;
    f[133] = 0xF1;
    f[134] = 0;
    f[135] = 0;
    f[140] = 0;
    f[141] = 0;
    f[142] = 0;
    f[143] = 0;
    let r = read_aseprite(&f[..]);
    assert!(r.is_err(), "a file that ends after the first of two declared frames fails to load");
    kani::cover!(true);
    core::mem::forget(r);
}

/// C14 at frame level: one-byte-at-a-time delivery gives the same parsed layer as the slice reader
#[kani::proof]
#[kani::unwind(48)]
#[kani::stub(alloc::fmt::format, crate::vklib::empty_format)]
#[kani::stub(std::hash::RandomState::new, crate::vklib::fixed_random_state)]
fn c14_t_frame_one_byte_at_a_time() {
    let bytes = layer_ud_frame();
    let mut ra = AseReader::with(ChoppyReader { data: &bytes[..], pos: 0, max: 1, calls: 0, interrupt_every: 0 });
    let mut rb = AseReader::with(&bytes[..]);
    let mut ia = ParseInfo::new(1, 100);
    let mut ib = ParseInfo::new(1, 100);
    let a = parse_frame(&mut ra, 0, PixelFormat::Rgba, &mut ia);
    let b = parse_frame(&mut rb, 0, PixelFormat::Rgba, &mut ib);
    assert!(a.is_ok() && b.is_ok());
    let (la, lb) = (&ia.layers[0], &ib.layers[0]);
    assert!(la.flags == lb.flags && level_of(la) == level_of(lb) && la.opacity == lb.opacity && la.name.as_bytes()[0] == lb.name.as_bytes()[0]);
    assert!(ia.frame_times[0] == ib.frame_times[0]);
    assert!(la.user_data.as_ref().map(|u| u.color) == lb.user_data.as_ref().map(|u| u.color));
    kani::cover!(true);
    core::mem::forget(ia);
    core::mem::forget(ib);
    core::mem::forget(bytes);
}

