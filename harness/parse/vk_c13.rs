//! C13 — truncated files are rejected, never loaded as a smaller sprite; and the parse-level parts of C14.
use super::*;
use crate::layer::vkl::*;
use crate::vklib::*;

fn layer_ud_frame() -> Vec<u8> {
    let mut body: Vec<u8> = Vec::with_capacity(64);
    // layer chunk with symbolic attributes
    put32(&mut body, 19 + 6);
    put16(&mut body, 0x2004);
    put_any(&mut body, 2);
    put16(&mut body, 0);
    put_any(&mut body, 2);
    put_zeros(&mut body, 4);
    put16(&mut body, 0);
    put_any(&mut body, 1);
    put_zeros(&mut body, 3);
    put_any_ascii(&mut body, 1);
    // user data chunk (colour)
    put32(&mut body, 8 + 6);
    put16(&mut body, 0x2020);
    put32(&mut body, 2);
    put_any(&mut body, 4);
    let mut bytes: Vec<u8> = Vec::with_capacity(16 + body.len());
    put32(&mut bytes, 16 + body.len() as u32);
    put16(&mut bytes, 0xF1FA);
    put16(&mut bytes, 2);
    put_any(&mut bytes, 2);
    put16(&mut bytes, 0);
    put32(&mut bytes, 0);
    bytes.extend_from_slice(&body);
    bytes
}

/// a frame (layer + user data, symbolic contents) cut at the given offsets is an error value. The cut offsets are
/// concrete per harness (a symbolic cut makes every later read position symbolic and the query runs out of
/// memory): together the three quick harnesses cover every read boundary of the frame and one offset inside each read.
fn frame_cut_at<const N: usize>(cuts: [usize; N]) {
    for k in 0..N {
        let bytes = layer_ud_frame();
        let cut = cuts[k];
        assert!(cut < bytes.len());
        // a file cut at `cut` IS the prefix: the in-memory reader over the first `cut` bytes
        let mut reader = AseReader::with(&bytes[..cut]);
        let mut info = ParseInfo::new(1, 100);
        let r = parse_frame(&mut reader, 0, PixelFormat::Rgba, &mut info);
        assert!(r.is_err(), "a frame that ends before its declared end does not parse");
        core::mem::forget(r);
        core::mem::forget(info);
        core::mem::forget(bytes);
    }
    kani::cover!(true);
}
macro_rules! cut_harness {
    ($name:ident, $c:expr) => {
        #[kani::proof]
        #[kani::unwind(9)]
        #[kani::stub(alloc::fmt::format, crate::vklib::empty_format)]
        #[kani::stub(std::hash::RandomState::new, crate::vklib::fixed_random_state)]
        fn $name() {
            frame_cut_at($c);
        }
    };
}
// Cuts inside the fixed-size header reads of a frame WITH chunks do not finish (after the failed read the
// symbolic execution of the rest of parse_frame runs on a slice of symbolic length; > 12 GB): not decided (also for an empty frame: 9 GB after 7 min); the
// payload reads are decided here, the file header in c13_q_header_cut_at_field_boundaries.
// layer chunk: 16..20 size, 20..22 type, 22..41 payload
cut_harness!(c13_q_frame_cut_in_first_chunk_b, [22, 40]);
// user data chunk: 41..45 size, 45..47 type, 47..55 payload
cut_harness!(c13_q_frame_cut_in_second_chunk_b, [47, 54]);


/// a frame whose LAST chunk is an ignorable one (cel extra, symbolic payload), cut inside that payload: still an error
#[kani::proof]
#[kani::unwind(9)]
#[kani::stub(alloc::fmt::format, crate::vklib::empty_format)]
#[kani::stub(std::hash::RandomState::new, crate::vklib::fixed_random_state)]
fn c13_q_frame_cut_in_trailing_ignorable_chunk() {
    const KINDS: [u16; 2] = [0x2006, 0x2017];
    for k in 0..2 {
        let mut body: Vec<u8> = Vec::with_capacity(32);
        put32(&mut body, 8 + 6);
        put16(&mut body, KINDS[k]);
        put_any(&mut body, 8);
        let mut bytes: Vec<u8> = Vec::with_capacity(48);
        put32(&mut bytes, 16 + body.len() as u32);
        put16(&mut bytes, 0xF1FA);
        put16(&mut bytes, 1);
        put_any(&mut bytes, 2);
        put16(&mut bytes, 0);
        put32(&mut bytes, 0);
        bytes.extend_from_slice(&body);
        let cut = [25usize, 29][k];
        let mut reader = AseReader::with(&bytes[..cut]);
        let mut info = ParseInfo::new(1, 100);
        let r = parse_frame(&mut reader, 0, PixelFormat::Rgba, &mut info);
        assert!(r.is_err(), "a frame cut inside an ignorable chunk does not parse");
        core::mem::forget(r);
        core::mem::forget(info);
        core::mem::forget(bytes);
        core::mem::forget(body);
    }
    kani::cover!(true);
}

/// the 128-byte header (symbolic contents) cut at each field boundary of its first 44 bytes, inside the reserved tail
/// and one byte before its end: error value (frame count 0 keeps the query at the header); uncut: loads
#[kani::proof]
#[kani::unwind(8)]
#[kani::stub(alloc::fmt::format, crate::vklib::empty_format)]
#[kani::stub(std::hash::RandomState::new, crate::vklib::fixed_random_state)]
fn c13_q_header_cut_at_field_boundaries() {
    const CUTS: [usize; 4] = [3, 12, 43, 127];
    for k in 0..4 {
        let mut f: [u8; 128] = kani::any();
        f[4] = 0xE0;
        f[5] = 0xA5;
        f[6] = 0;
        f[7] = 0;
        f[12] = 32;
        f[13] = 0;
        f[34] = 1;
        f[35] = 1;
        let r = read_aseprite(&f[..CUTS[k]]);
        assert!(r.is_err(), "a cut header does not load");
        core::mem::forget(r);
    }
    kani::cover!(true);
}

/// stand-in for Chunk::read_all in the header-cut harness: what follows the frame header is cut away (an empty chunk
/// list), so that the query holds only parse_frame's own header reads
pub(crate) fn stub_read_all_none<R: Read>(_count: u32, _bytes_available: i64, _reader: &mut AseReader<R>) -> Result<Vec<Chunk>> {
    Ok(Vec::new())
}

/// a frame header (symbolic fields, correct magic) cut after 3, 5, 6, 8, 10 or 15 of its 16 bytes: parse_frame's own reads
/// report the missing bytes -- nothing missing is taken as zero. (The chunk reads that follow are decided by
/// c13_q_chunk_cut; with the real Chunk::read_all in place these queries exceed 12 GB.)
#[kani::proof]
#[kani::unwind(8)]
#[kani::stub(alloc::fmt::format, crate::vklib::empty_format)]
#[kani::stub(std::hash::RandomState::new, crate::vklib::fixed_random_state)]
#[kani::stub(crate::parse::Chunk::read_all, crate::parse::vk_c13::stub_read_all_none)]
fn c13_q_frame_header_cut() {
    const CUTS: [usize; 6] = [3, 5, 6, 8, 10, 15];
    for k in 0..6 {
        let mut h: [u8; 16] = kani::any();
        h[4] = 0xFA;
        h[5] = 0xF1;
        let mut reader = AseReader::with(&h[..CUTS[k]]);
        let mut info = ParseInfo::new(1, 100);
        let r = parse_frame(&mut reader, 0, PixelFormat::Rgba, &mut info);
        assert!(r.is_err(), "a frame header that is cut short does not parse");
        core::mem::forget(r);
        core::mem::forget(info);
    }
    kani::cover!(true);
}

/// one chunk (6-byte header + 4 payload bytes, symbolic) cut inside its size, its type and its payload: Chunk::read
/// reports the missing bytes
#[kani::proof]
#[kani::unwind(6)]
#[kani::stub(alloc::fmt::format, crate::vklib::empty_format)]
fn c13_q_chunk_cut() {
    const CUTS: [usize; 4] = [2, 5, 7, 9];
    for k in 0..4 {
        let cut = CUTS[k];
        let mut b: [u8; 10] = kani::any();
        b[0] = 10; // declared size 10
        b[1] = 0;
        b[2] = 0;
        b[3] = 0;
        b[4] = 0x06; // cel extra
        b[5] = 0x20;
        let mut budget: i64 = 1000;
        let mut reader = AseReader::with(&b[..cut]);
        let r = Chunk::read(&mut budget, &mut reader);
        assert!(r.is_err(), "a chunk that is cut short is an error value");
        core::mem::forget(r);
    }
    // uncut: ok
    let mut b: [u8; 10] = kani::any();
    b[0] = 10;
    b[1] = 0;
    b[2] = 0;
    b[3] = 0;
    b[4] = 0x06;
    b[5] = 0x20;
    let mut budget: i64 = 1000;
    let mut reader = AseReader::with(&b[..]);
    let r = Chunk::read(&mut budget, &mut reader);
    assert!(r.is_ok() && budget == 990, "the complete chunk reads and is charged to the frame's byte budget");
    kani::cover!(true);
    core::mem::forget(r);
}

/// C14 at frame level: a frame (layer + user data, symbolic contents) delivered in short reads with transient
/// Interrupted results (RetryReader, see vklib) parses to the same layer as from the in-memory slice.
/// take_bytes / unzip (read_to_end through std's Take / the inflater) are not on this path.
fn frame_delivery(max: usize, mask: u64) {
    let bytes = layer_ud_frame();
    let mut ra = AseReader::with(RetryReader { data: &bytes, pos: 0, max, calls: 0, mask, interrupts: 0 });
    let mut rb = AseReader::with(&bytes[..]);
    let mut ia = ParseInfo::new(1, 100);
    let mut ib = ParseInfo::new(1, 100);
    let xa = parse_frame(&mut ra, 0, PixelFormat::Rgba, &mut ia);
    let xb = parse_frame(&mut rb, 0, PixelFormat::Rgba, &mut ib);
    assert!(xa.is_ok() == xb.is_ok(), "same outcome for every delivery schedule");
    if xa.is_ok() && xb.is_ok() {
        assert!(ia.layers.len() == 1 && ib.layers.len() == 1, "one layer either way");
        let (la, lb) = (&ia.layers[0], &ib.layers[0]);
        assert!(la.flags.bits() == lb.flags.bits() && la.opacity == lb.opacity && la.blend_mode == lb.blend_mode, "same layer attributes");
        assert!(la.name.len() == 1 && lb.name.len() == 1 && la.name.as_bytes()[0] == lb.name.as_bytes()[0], "same layer name");
        match (&la.user_data, &lb.user_data) {
            (Some(ua), Some(ub)) => match (&ua.color, &ub.color) {
                (Some(ca), Some(cb)) => assert!(ca.0[0] == cb.0[0] && ca.0[1] == cb.0[1] && ca.0[2] == cb.0[2] && ca.0[3] == cb.0[3], "same user data colour"),
                _ => assert!(false, "user data colour present either way"),
            },
            _ => assert!(false, "user data attached either way"),
        }
    }
    kani::cover!(xa.is_ok()); // call 0 is interrupted by construction (mask bit 0)
    core::mem::forget((xa, xb, ia, ib, bytes));
}
macro_rules! delivery_harness {
    ($name:ident, $max:expr, $mask:expr) => {
        #[kani::proof]
        #[kani::unwind(9)]
        #[kani::stub(alloc::fmt::format, crate::vklib::empty_format)]
        #[kani::stub(std::hash::RandomState::new, crate::vklib::fixed_random_state)]
        fn $name() {
            frame_delivery($max, $mask);
        }
    };
}
// 4 bytes per call, calls 0, 3, 6, ... interrupted
delivery_harness!(c14_q_frame_short_reads_interrupted, 4, 0x9249_2492_4924_9249);
// 5 bytes per call, every other call interrupted
delivery_harness!(c14_t_frame_short_reads_interrupted_alt, 5, 0x5555_5555_5555_5555);

/// C14 at chunk level: a hard I/O error (concrete kind per offset) inside the payload of one chunk: Chunk::read returns
/// the IoError variant carrying that kind. (A fault inside the 6 header bytes is decided for the primitives that read
/// them -- c14_q_hard_error_{long,word}; here it would leave the chunk size unconstrained on the Ok continuation that
/// CBMC cannot rule out during symbolic execution, and the query runs out of memory.)
#[kani::proof]
#[kani::unwind(6)]
#[kani::stub(alloc::fmt::format, crate::vklib::empty_format)]
fn c14_q_hard_error_chunk_read() {
    const AT: [usize; 3] = [6, 8, 9];
    const KINDS: [std::io::ErrorKind; 3] = [std::io::ErrorKind::BrokenPipe, std::io::ErrorKind::InvalidData, std::io::ErrorKind::Other];
    for k in 0..3 {
        let mut b: [u8; 10] = kani::any();
        b[0] = 10; // declared size 10
        b[1] = 0;
        b[2] = 0;
        b[3] = 0;
        b[4] = 0x06; // cel extra
        b[5] = 0x20;
        let mut budget: i64 = 1000;
        let mut reader = AseReader::with(LimitReader { data: &b, pos: 0, limit: AT[k], fault: Some(KINDS[k]) });
        let r = Chunk::read(&mut budget, &mut reader);
        match &r {
            Ok(_) => assert!(false, "the reader failed before the chunk was delivered: no chunk"),
            Err(AsepriteParseError::IoError(e)) => assert!(e.kind() == KINDS[k], "the reader's error kind is preserved"),
            Err(_) => assert!(false, "an I/O failure is reported as the IoError variant"),
        }
        core::mem::forget(r);
    }
    kani::cover!(true);
}

/// C14 at chunk-list level: a hard I/O error inside the payload of the first of two declared chunks: Chunk::read_all
/// returns the IoError variant carrying that kind -- it does not hand back the chunks read so far
#[kani::proof]
#[kani::unwind(6)]
#[kani::stub(alloc::fmt::format, crate::vklib::empty_format)]
fn c14_q_hard_error_read_all() {
    const AT: [usize; 2] = [7, 9];
    const KINDS: [std::io::ErrorKind; 2] = [std::io::ErrorKind::TimedOut, std::io::ErrorKind::Other];
    for k in 0..2 {
        let mut b: [u8; 10] = kani::any();
        b[0] = 10; // declared size 10
        b[1] = 0;
        b[2] = 0;
        b[3] = 0;
        b[4] = 0x06; // cel extra
        b[5] = 0x20;
        let mut reader = AseReader::with(LimitReader { data: &b, pos: 0, limit: AT[k], fault: Some(KINDS[k]) });
        let r = Chunk::read_all(2, 1000, &mut reader);
        match &r {
            Ok(_) => assert!(false, "the reader failed before the declared chunks were delivered: no chunk list"),
            Err(AsepriteParseError::IoError(e)) => assert!(e.kind() == KINDS[k], "the reader's error kind is preserved"),
            Err(_) => assert!(false, "an I/O failure is reported as the IoError variant"),
        }
        core::mem::forget(r);
    }
    kani::cover!(true);
}
