//! C10 — user data is attached to the entity it follows and to nothing else.
//! parse_frame over concrete chunk-kind sequences whose user-data payloads (text byte, colour) are symbolic; the
//! expected attachment is computed by a small interpreter of the file-format rule and compared with the parser state.
use super::*;
use crate::cel::CelId;
use crate::vklib::*;

const LAYER: u8 = 0;
const CEL: u8 = 1;
const SLICE: u8 = 2;
const TAGS2: u8 = 3;
const OLDPAL: u8 = 4;
const NEWPAL: u8 = 5;
const IGNORABLE: u8 = 6;
const UD: u8 = 7;
const OLDPAL11: u8 = 8;
const EXTERNAL: u8 = 9;
const UD_EMPTY: u8 = 10; // user data record with neither text nor colour (flags 0)

#[derive(Clone, Copy, PartialEq)]
enum Target {
    None,
    Layer(usize),
    Cel(u16),
    Slice(usize),
    Tag(usize),
    Sprite,
}

fn chunk_header(v: &mut Vec<u8>, ty: u16, payload_len: usize) {
    put32(v, payload_len as u32 + 6);
    put16(v, ty);
}
fn layer_chunk(v: &mut Vec<u8>) {
    chunk_header(v, 0x2004, 18);
    put16(v, 1);
    put_zeros(v, 10);
    v.push(255);
    put_zeros(v, 3);
    put16(v, 0); // empty name
}
fn cel_chunk(v: &mut Vec<u8>, layer: u16) {
    // linked cel (type 1): the smallest cel payload
    chunk_header(v, 0x2005, 18);
    put16(v, layer);
    put_zeros(v, 5);
    put16(v, 1);
    put_zeros(v, 7);
    put16(v, 0);
}
fn slice_chunk(v: &mut Vec<u8>) {
    chunk_header(v, 0x2022, 14);
    put_zeros(v, 14);
}
fn tags2_chunk(v: &mut Vec<u8>) {
    chunk_header(v, 0x2018, 10 + 2 * 19);
    put16(v, 2);
    put_zeros(v, 8);
    put_zeros(v, 38);
}
fn oldpal_chunk(v: &mut Vec<u8>, ty: u16) {
    chunk_header(v, ty, 2);
    put16(v, 0); // zero packets
}
fn newpal_chunk(v: &mut Vec<u8>) {
    chunk_header(v, 0x2019, 26);
    put32(v, 1);
    put32(v, 0);
    put32(v, 0);
    put_zeros(v, 8);
    put16(v, 0);
    put_any(v, 4);
}
fn ignorable_chunk(v: &mut Vec<u8>, which: usize) {
    chunk_header(v, [0x2006u16, 0x2016, 0x2017][which % 3], 6);
    put_any(v, 6);
}
fn external_chunk(v: &mut Vec<u8>) {
    chunk_header(v, 0x2008, 12);
    put_zeros(v, 12);
}

/// expected user data, heap-free
#[derive(Clone, Copy)]
struct Exp {
    present: bool,
    has_text: bool,
    text: u8,
    has_color: bool,
    color: [u8; 4],
}
const NO: Exp = Exp { present: false, has_text: false, text: 0, has_color: false, color: [0; 4] };

/// user data chunk with concrete flag word `flags` (decides the length), symbolic text byte and colour
fn ud_chunk(v: &mut Vec<u8>, flags: u32) -> Exp {
    let len = 4 + if flags & 1 != 0 { 3 } else { 0 } + if flags & 2 != 0 { 4 } else { 0 };
    chunk_header(v, 0x2020, len);
    put32(v, flags);
    let mut e = Exp { present: true, ..NO };
    if flags & 1 != 0 {
        let c: u8 = kani::any();
        kani::assume(c < 0x80);
        put16(v, 1);
        v.push(c);
        e.has_text = true;
        e.text = c;
    }
    if flags & 2 != 0 {
        let rgba: [u8; 4] = kani::any();
        v.push(rgba[0]);
        v.push(rgba[1]);
        v.push(rgba[2]);
        v.push(rgba[3]);
        e.has_color = true;
        e.color = rgba;
    }
    e
}

fn ud_is(a: &Option<UserData>, e: &Exp) -> bool {
    match a {
        None => !e.present,
        Some(x) => {
            let t = match &x.text {
                None => !e.has_text,
                Some(p) => e.has_text && p.len() == 1 && p.as_bytes()[0] == e.text,
            };
            let c = match &x.color {
                None => !e.has_color,
                Some(p) => e.has_color && p.0[0] == e.color[0] && p.0[1] == e.color[1] && p.0[2] == e.color[2] && p.0[3] == e.color[3],
            };
            e.present && t && c
        }
    }
}

fn run_sequence<const N: usize>(kinds: [u8; N], expect_ok: bool) {
    // build the frame and, alongside, the expected attachment per the format rule
    let mut body: Vec<u8> = Vec::with_capacity(256);
    let mut cur = Target::None;
    let (mut n_layers, mut n_cels, mut n_slices, mut n_tags) = (0usize, 0u16, 0usize, 0usize);
    let mut exp_layer = [NO; 3];
    let mut exp_cel = [NO; 3];
    let mut exp_slice = [NO; 3];
    let mut exp_tag = [NO; 2];
    let mut exp_sprite = NO;
    let mut n_ud = 0u32;
    for i in 0..N {
        match kinds[i] {
            LAYER => {
                layer_chunk(&mut body);
                cur = Target::Layer(n_layers);
                n_layers += 1;
            }
            CEL => {
                cel_chunk(&mut body, n_cels);
                cur = Target::Cel(n_cels);
                n_cels += 1;
            }
            SLICE => {
                slice_chunk(&mut body);
                cur = Target::Slice(n_slices);
                n_slices += 1;
            }
            TAGS2 => {
                tags2_chunk(&mut body);
                cur = Target::Tag(0);
                n_tags = 2;
            }
            OLDPAL => {
                oldpal_chunk(&mut body, 0x0004);
                cur = Target::Sprite;
            }
            OLDPAL11 => {
                oldpal_chunk(&mut body, 0x0011);
                cur = Target::Sprite;
            }
            NEWPAL => newpal_chunk(&mut body),
            IGNORABLE => ignorable_chunk(&mut body, i),
            EXTERNAL => external_chunk(&mut body),
            k => {
                // text+colour, text only, colour only, neither -- by position; UD_EMPTY is always "neither"
                let ud = ud_chunk(&mut body, if k == UD_EMPTY { 0 } else { [3u32, 1, 2, 0][(n_ud % 4) as usize] });
                n_ud += 1;
                match cur {
                    Target::Layer(k) => exp_layer[k] = ud,
                    Target::Cel(k) => exp_cel[k as usize] = ud,
                    Target::Slice(k) => exp_slice[k] = ud,
                    Target::Tag(k) => {
                        if k < 2 {
                            exp_tag[k] = ud;
                        }
                        cur = Target::Tag(k + 1);
                    }
                    Target::Sprite => exp_sprite = ud,
                    Target::None => {}
                }
            }
        }
    }
    let mut bytes: Vec<u8> = Vec::with_capacity(16 + body.len());
    put32(&mut bytes, 16 + body.len() as u32);
    put16(&mut bytes, 0xF1FA);
    put16(&mut bytes, N as u16);
    put16(&mut bytes, 100);
    put16(&mut bytes, 0);
    put32(&mut bytes, 0);
    bytes.extend_from_slice(&body);
    let mut reader = AseReader::with(&bytes[..]);
    let mut info = ParseInfo::new(1, 100);
    let r = parse_frame(&mut reader, 0, PixelFormat::Rgba, &mut info);
    assert!(r.is_ok() == expect_ok, "frame parses iff every user-data chunk has an entity to attach to");
    if expect_ok {
        assert!(info.layers.len() == n_layers && info.slices.len() == n_slices);
        for k in 0..n_layers {
            assert!(ud_is(&info.layers[k].user_data, &exp_layer[k]), "layer user data == record that followed this layer (or none)");
        }
        for k in 0..n_cels {
            let c = info.framedata.cel(CelId { frame: 0, layer: k });
            assert!(c.is_some());
            assert!(ud_is(&c.unwrap().user_data, &exp_cel[k as usize]), "cel user data == record that followed this cel (or none)");
        }
        for k in 0..n_slices {
            assert!(ud_is(&info.slices[k].user_data, &exp_slice[k]), "slice user data == record that followed this slice (or none)");
        }
        if n_tags == 2 {
            let t = info.tags.as_ref().unwrap();
            assert!(t.len() == 2);
            assert!(ud_is(&t[0].user_data, &exp_tag[0]), "tag 0 user data == first record after the tags chunk (or none)");
            assert!(ud_is(&t[1].user_data, &exp_tag[1]), "tag 1 user data == second record after the tags chunk (or none)");
        } else {
            assert!(info.tags.is_none());
        }
        assert!(ud_is(&info.sprite_user_data, &exp_sprite), "sprite user data == record that followed a legacy palette chunk (or none)");
    }
    kani::cover!(true);
    core::mem::forget(r);
    core::mem::forget(info);
    core::mem::forget(bytes);
    core::mem::forget(body);
}

macro_rules! seq {
    ($name:ident, $unw:expr, $ok:expr, [$($k:expr),*]) => {
        #[kani::proof]
        #[kani::unwind($unw)]
        #[kani::stub(alloc::fmt::format, crate::vklib::empty_format)]
        #[kani::stub(std::hash::RandomState::new, crate::vklib::fixed_random_state)]
        fn $name() {
            run_sequence([$($k),*], $ok);
        }
    };
}
// quick: every entity kind followed by its record, with and without an intervening non-entity chunk
seq!(c10_q_layer_ud, 9, true, [LAYER, UD]);
seq!(c10_q_cel_ud, 9, true, [CEL, UD]);
seq!(c10_q_slice_ud, 9, true, [SLICE, UD]);
seq!(c10_q_oldpal_ud, 9, true, [OLDPAL, UD]);
seq!(c10_q_tags_ud_ud, 9, true, [TAGS2, UD, UD]);
seq!(c10_q_layer_ignorable_ud, 9, true, [LAYER, IGNORABLE, UD]);
seq!(c10_q_dangling_ud, 9, false, [UD]);
seq!(c10_q_layer_ud_layer, 9, true, [LAYER, UD, LAYER]);
seq!(c10_q_layer_layer_ud, 9, true, [LAYER, LAYER, UD]);
seq!(c10_q_tags_ud_layer_ud, 9, true, [TAGS2, UD, LAYER, UD]);
seq!(c10_q_cel_newpal_ud, 9, true, [CEL, NEWPAL, UD]);
seq!(c10_q_layer_newpal_oldpal_ud, 9, true, [LAYER, NEWPAL, OLDPAL, UD]);
seq!(c10_q_oldpal_layer_oldpal11_ud, 9, true, [OLDPAL, LAYER, OLDPAL11, UD]);
seq!(c10_q_tags_empty_ud_then_ud, 9, true, [TAGS2, UD_EMPTY, UD]);
seq!(c10_q_layer_empty_ud, 9, true, [LAYER, UD_EMPTY]);
// thorough: longer mixes
seq!(c10_t_layer_ud_cel_ud_slice_ud, 9, true, [LAYER, UD, CEL, UD, SLICE, UD]);
seq!(c10_t_oldpal11_external_ud, 9, true, [OLDPAL11, EXTERNAL, UD]);
seq!(c10_t_slice_slice_ud, 9, true, [SLICE, SLICE, UD]);
seq!(c10_t_cel_cel_ud_ignorable, 9, true, [CEL, CEL, UD, IGNORABLE]);
seq!(c10_t_tags_layer_ud, 9, true, [TAGS2, LAYER, UD]);
seq!(c10_t_oldpal_ud_layer_cel_ud, 9, true, [OLDPAL, UD, LAYER, CEL, UD]);
seq!(c10_t_layer_ud_tags_ud_slice_ud, 9, true, [LAYER, UD, TAGS2, UD, SLICE, UD]);
seq!(c10_t_newpal_ud_dangling, 9, false, [NEWPAL, UD]);
seq!(c10_t_ignorable_ud_dangling, 9, false, [IGNORABLE, UD]);

/// the user-data chunk decoder itself with the whole 32-bit flag word symbolic: text iff bit 0, colour iff bit 1,
/// no other bit changes what is reported (11 bytes: room for a 1-byte text and a colour on every path)
#[kani::proof]
#[kani::unwind(6)]
#[kani::stub(alloc::fmt::format, crate::vklib::empty_format)]
fn c10_q_userdata_flag_word_any() {
    let mut buf: [u8; 11] = kani::any();
    buf[4] = 1;
    buf[5] = 0;
    kani::assume(buf[6] < 0x80);
    let flags = rd32(&buf, 0);
    // without text the bytes 4..8 are the colour, with text the bytes 7..11
    let ud = match crate::user_data::parse_userdata_chunk(&buf) {
        Ok(u) => u,
        Err(e) => {
            core::mem::forget(e);
            assert!(false, "user data chunk with enough bytes decodes for every flag word");
            return;
        }
    };
    match &ud.text {
        None => assert!(flags & 1 == 0, "text reported only when its flag is set"),
        Some(t) => assert!(flags & 1 != 0 && t.len() == 1 && t.as_bytes()[0] == buf[6]),
    }
    let at = if flags & 1 != 0 { 7 } else { 4 };
    match &ud.color {
        None => assert!(flags & 2 == 0, "colour reported only when its flag is set"),
        Some(c) => assert!(flags & 2 != 0 && c.0[0] == buf[at] && c.0[1] == buf[at + 1] && c.0[2] == buf[at + 2] && c.0[3] == buf[at + 3]),
    }
    kani::cover!(flags == 4);
    kani::cover!(flags == 0xffff_fffd);
    kani::cover!(flags == 3);
    core::mem::forget(ud);
}

/// One attachment step from an ARBITRARY context (inductive step for histories of any length): a parser state with 2
/// layers, 2 slices, 2 tags and one cel, none of which has user data yet; the attachment context is symbolic over every
/// variant and every index the parser can reach (incl. the tag index one past the last tag). add_user_data attaches the record to exactly the entity the context names --
/// and to nothing else -- advances a tag context by one, and reports contexts that name nothing as error values.
#[kani::proof]
#[kani::unwind(6)]
#[kani::stub(alloc::fmt::format, crate::vklib::empty_format)]
#[kani::stub(std::hash::RandomState::new, crate::vklib::fixed_random_state)]
fn c10_q_attach_step_any_context() {
    let mut info = ParseInfo::new(1, 100);
    info.layers.push(crate::layer::vkl::mk_layer(1, 0, crate::BlendMode::Normal, 255, crate::LayerType::Image));
    info.layers.push(crate::layer::vkl::mk_layer(1, 0, crate::BlendMode::Normal, 255, crate::LayerType::Image));
    info.slices.push(Slice { name: String::new(), keys: Vec::new(), user_data: None });
    info.slices.push(Slice { name: String::new(), keys: Vec::new(), user_data: None });
    info.tags = Some(vec![crate::tags::vkl::mk_tag(String::new(), 0, 0), crate::tags::vkl::mk_tag(String::new(), 0, 1)]);
    let cel = cel::RawCel {
        data: cel::CelCommon { layer_index: 1, x: 0, y: 0, opacity: 255 },
        content: cel::CelContent::Linked(0),
        user_data: None,
    };
    let added = info.framedata.add_cel(0, cel);
    assert!(added.is_ok());
    core::mem::forget(added);
    // symbolic context
    let which: u8 = kani::any();
    let idx: u8 = kani::any();
    kani::assume(which < 6 && idx < 4);
    // only contexts the parser can actually be in: an existing layer / slice, the cel just added, a tag index up to
    // (and including) one past the last tag -- that one arises after as many records as there are tags
    kani::assume(match which {
        1 | 2 => idx < 2,
        3 => idx <= 2,
        5 => idx == 1,
        _ => true,
    });
    info.user_data_context = match which {
        0 => None,
        1 => Some(UserDataContext::LayerIndex(idx as u32)),
        2 => Some(UserDataContext::SliceIndex(idx as u32)),
        3 => Some(UserDataContext::TagIndex(idx as u16)),
        4 => Some(UserDataContext::OldPalette),
        _ => Some(UserDataContext::CelId(CelId { frame: 0, layer: idx as u16 })),
    };
    let col: [u8; 4] = kani::any();
    let r = info.add_user_data(UserData { text: None, color: Some(image::Rgba(col)) });
    let is = |u: &Option<UserData>| match u {
        Some(UserData { text: None, color: Some(c) }) => c.0[0] == col[0] && c.0[1] == col[1] && c.0[2] == col[2] && c.0[3] == col[3],
        _ => false,
    };
    let valid = match which {
        0 => false,
        1 => idx < 2,
        2 => idx < 2,
        3 => idx < 2,
        4 => true,
        _ => idx == 1,
    };
    assert!(r.is_ok() == valid, "a context that names an existing entity attaches; anything else is an error value");
    let tags = info.tags.as_ref().unwrap();
    let cel_ud = &info.framedata.cel(CelId { frame: 0, layer: 1 }).unwrap().user_data;
    for k in 0..2usize {
        assert!(is(&info.layers[k].user_data) == (valid && which == 1 && idx as usize == k), "layer k gets the record iff the context names it");
        assert!(is(&info.slices[k].user_data) == (valid && which == 2 && idx as usize == k), "slice k likewise");
        assert!(is(&tags[k].user_data) == (valid && which == 3 && idx as usize == k), "tag k likewise");
        assert!(info.layers[k].user_data.is_some() == is(&info.layers[k].user_data));
        assert!(info.slices[k].user_data.is_some() == is(&info.slices[k].user_data));
        assert!(tags[k].user_data.is_some() == is(&tags[k].user_data));
    }
    assert!(is(cel_ud) == (valid && which == 5) && cel_ud.is_some() == is(cel_ud), "the cel gets the record iff the context names it");
    assert!(is(&info.sprite_user_data) == (which == 4) && info.sprite_user_data.is_some() == (which == 4), "the sprite gets it iff a legacy palette preceded");
    if valid && which == 3 {
        match info.user_data_context {
            Some(UserDataContext::TagIndex(n)) => assert!(n == idx as u16 + 1, "the next record goes to the next tag"),
            _ => assert!(false),
        }
    }
    kani::cover!(which == 3 && idx == 1 && r.is_ok());
    kani::cover!(which == 3 && idx == 2 && r.is_err(), "one record more than there are tags");
    kani::cover!(which == 0);
    core::mem::forget(r);
    core::mem::forget(info);
}
