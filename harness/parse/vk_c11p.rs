//! C11 (parse-module part): a new-format palette takes precedence over legacy chunks in either order.
use super::*;
use crate::vklib::*;

fn precedence(new_first: bool, legacy_ty: u16) {
    precedence_with(new_first, legacy_ty, kani::any());
}
fn precedence_with(new_first: bool, legacy_ty: u16, old_rgb: [u8; 3]) {
    let mut body: Vec<u8> = Vec::with_capacity(64);
    let new_rgba: [u8; 4] = kani::any();
    kani::assume(old_rgb[0] < 64 && old_rgb[1] < 64 && old_rgb[2] < 64); // valid for both legacy kinds
    for k in 0..2 {
        if (k == 0) == new_first {
            put32(&mut body, 26 + 6);
            put16(&mut body, 0x2019);
            put32(&mut body, 1);
            put32(&mut body, 0);
            put32(&mut body, 0);
            put_zeros(&mut body, 8);
            put16(&mut body, 0);
            body.extend_from_slice(&new_rgba);
        } else {
            // legacy chunk: one packet with TWO colours (indices 0 and 1) -- more than the new chunk covers
            put32(&mut body, 10 + 6);
            put16(&mut body, legacy_ty);
            put16(&mut body, 1);
            body.push(0);
            body.push(2);
            body.extend_from_slice(&old_rgb);
            body.extend_from_slice(&old_rgb);
        }
    }
    let mut bytes: Vec<u8> = Vec::with_capacity(16 + body.len());
    put32(&mut bytes, 16 + body.len() as u32);
    put16(&mut bytes, 0xF1FA);
    put16(&mut bytes, 2);
    put16(&mut bytes, 100);
    put16(&mut bytes, 0);
    put32(&mut bytes, 0);
    bytes.extend_from_slice(&body);
    let mut reader = AseReader::with(&bytes[..]);
    let mut info = ParseInfo::new(1, 100);
    let r = parse_frame(&mut reader, 0, PixelFormat::Rgba, &mut info);
    assert!(r.is_ok());
    let p = info.palette.as_ref().unwrap();
    let e = p.color(0).unwrap();
    assert!(e.raw_rgba8() == new_rgba, "the new-format palette wins over the legacy chunk");
    assert!(p.num_colors() == 1 && p.color(1).is_none(), "nothing of the legacy palette survives (it covered index 1 as well)");
    kani::cover!(new_rgba[3] != 255 && new_rgba[0] != old_rgb[0]);
    core::mem::forget(r);
    core::mem::forget(info);
}
#[kani::proof]
#[kani::unwind(9)]
#[kani::stub(alloc::fmt::format, crate::vklib::empty_format)]
#[kani::stub(std::collections::HashMap::insert, crate::vklib::hm_insert)]
#[kani::stub(std::collections::HashMap::with_hasher, crate::vklib::hm_with_hasher)]
#[kani::stub(crate::palette::ColorPalette::color, crate::vklib::side_color)]
#[kani::stub(std::collections::HashMap::len, crate::vklib::hm_len)]
#[kani::stub(std::hash::RandomState::new, crate::vklib::fixed_random_state)]
fn c11_q_new_palette_then_legacy() {
    precedence(true, 0x0004);
}
#[kani::proof]
#[kani::unwind(9)]
#[kani::stub(alloc::fmt::format, crate::vklib::empty_format)]
#[kani::stub(std::collections::HashMap::insert, crate::vklib::hm_insert)]
#[kani::stub(std::collections::HashMap::with_hasher, crate::vklib::hm_with_hasher)]
#[kani::stub(crate::palette::ColorPalette::color, crate::vklib::side_color)]
#[kani::stub(std::collections::HashMap::len, crate::vklib::hm_len)]
#[kani::stub(std::hash::RandomState::new, crate::vklib::fixed_random_state)]
fn c11_q_legacy_then_new_palette() {
    precedence(false, 0x0004);
}
#[kani::proof]
#[kani::unwind(9)]
#[kani::stub(alloc::fmt::format, crate::vklib::empty_format)]
#[kani::stub(std::collections::HashMap::insert, crate::vklib::hm_insert)]
#[kani::stub(std::collections::HashMap::with_hasher, crate::vklib::hm_with_hasher)]
#[kani::stub(crate::palette::ColorPalette::color, crate::vklib::side_color)]
#[kani::stub(std::collections::HashMap::len, crate::vklib::hm_len)]
#[kani::stub(std::hash::RandomState::new, crate::vklib::fixed_random_state)]
fn c11_q_new_palette_then_legacy_0011() {
    precedence(true, 0x0011);
}
#[kani::proof]
#[kani::unwind(9)]
#[kani::stub(alloc::fmt::format, crate::vklib::empty_format)]
#[kani::stub(std::collections::HashMap::insert, crate::vklib::hm_insert)]
#[kani::stub(std::collections::HashMap::with_hasher, crate::vklib::hm_with_hasher)]
#[kani::stub(crate::palette::ColorPalette::color, crate::vklib::side_color)]
#[kani::stub(std::collections::HashMap::len, crate::vklib::hm_len)]
#[kani::stub(std::hash::RandomState::new, crate::vklib::fixed_random_state)]
fn c11_t_legacy_0011_then_new_palette() {
    // concrete legacy components: the 0x0011 decoder's range check is a symbolic branch otherwise, the legacy map's
    // row count in the side table stays symbolic while the new palette is decoded, and the query runs out of memory
    // (the 6-bit decoder with symbolic components is decided in c11_q_scale_6bit / c11_t_legacy_11_*)
    precedence_with(false, 0x0011, [63, 0, 21]);
}
