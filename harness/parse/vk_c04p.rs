//! C04 (parse-module part): frame and chunk framing with arbitrary header fields.
use super::*;
use crate::vklib::*;

/// an empty frame whose byte-count field is arbitrary (0 ..= 2^32-1, in particular below the 16 header bytes) and
/// whose duration / reserved fields are symbolic: parse_frame returns Ok (never panics); a wrong magic is an error
#[kani::proof]
#[kani::unwind(4)]
#[kani::stub(alloc::fmt::format, crate::vklib::empty_format)]
#[kani::stub(std::hash::RandomState::new, crate::vklib::fixed_random_state)]
fn c04_q_frame_header_any_byte_count() {
    let mut h: [u8; 16] = kani::any();
    h[6] = 0; // old chunk count 0
    h[7] = 0;
    h[12] = 0; // new chunk count 0
    h[13] = 0;
    h[14] = 0;
    h[15] = 0;
    let magic_ok: bool = kani::any();
    if magic_ok {
        h[4] = 0xFA;
        h[5] = 0xF1;
    } else {
        h[4] = 0;
    }
    let mut reader = AseReader::with(&h[..]);
    let mut info = ParseInfo::new(1, 100);
    let r = parse_frame(&mut reader, 0, PixelFormat::Rgba, &mut info);
    assert!(r.is_ok() == magic_ok, "an empty frame loads whatever its byte-count field says; a wrong magic is an error value");
    kani::cover!(rd32(&h, 0) == 0 && r.is_ok());
    kani::cover!(rd32(&h, 0) == 15);
    kani::cover!(!magic_ok);
    core::mem::forget(r);
    core::mem::forget(info);
}

/// one chunk header with symbolic size and type inside a frame with a symbolic byte budget; 6 payload bytes follow
#[kani::proof]
#[kani::unwind(4)]
#[kani::stub(alloc::fmt::format, crate::vklib::empty_format)]
fn c04_q_chunk_header_any() {
    let buf: [u8; 12] = kani::any();
    // the byte budget a caller can hold: the frame's declared byte count (u32) minus the 16 header bytes, minus the
    // sizes of chunks already read (each of which fitted): -16 ..= 2^32 - 17
    let mut budget: i64 = kani::any();
    kani::assume(budget >= -16 && budget <= 0xffff_ffff - 16);
    let size = rd32(&buf, 0);
    kani::assume(size <= 12); // payload allocation stays small; larger declared sizes are C12's subject
    let mut reader = AseReader::with(&buf[..]);
    let r = Chunk::read(&mut budget, &mut reader);
    if let Ok(c) = &r {
        assert!(size >= 6 && c.data.len() == size as usize - 6, "payload length == declared size - header");
    }
    if size < 6 {
        assert!(r.is_err(), "a chunk smaller than its own header is rejected");
    }
    kani::cover!(r.is_ok() && size == 12);
    kani::cover!(size == 5);
    core::mem::forget(r);
}


/// every field of the frame header symbolic (byte count, magic, both chunk counts, duration), with the chunk list
/// reading cut away (Chunk::read_all stubbed to an empty list; it is decided by c04_q_read_all_any_count): parse_frame's
/// own code returns a value for every header -- in particular for byte counts below 16
#[kani::proof]
#[kani::unwind(4)]
#[kani::stub(alloc::fmt::format, crate::vklib::empty_format)]
#[kani::stub(std::hash::RandomState::new, crate::vklib::fixed_random_state)]
#[kani::stub(crate::parse::Chunk::read_all, crate::parse::vk_c04p::stub_read_all_none)]
fn c04_q_frame_header_fields_any() {
    let h: [u8; 16] = kani::any();
    let mut reader = AseReader::with(&h[..]);
    let mut info = ParseInfo::new(1, 100);
    let r = parse_frame(&mut reader, 0, PixelFormat::Rgba, &mut info);
    assert!(r.is_ok() == (rd16(&h, 4) == 0xF1FA), "only a wrong magic makes the header itself fail");
    if r.is_ok() {
        assert!(info.frame_times[0] == rd16(&h, 8));
    }
    kani::cover!(rd32(&h, 0) == 3 && r.is_ok());
    kani::cover!(rd32(&h, 12) == 0xffff_ffff && r.is_ok());
    core::mem::forget(r);
    core::mem::forget(info);
}
pub(crate) fn stub_read_all_none<R: Read>(_count: u32, _bytes_available: i64, _reader: &mut AseReader<R>) -> Result<Vec<Chunk>> {
    Ok(Vec::new())
}

/// the chunk list reader with ANY declared count and ANY byte budget over an input that holds no chunk: Ok(empty) for
/// count 0, an error value otherwise -- never a panic, never a long loop
#[kani::proof]
#[kani::unwind(4)]
#[kani::stub(alloc::fmt::format, crate::vklib::empty_format)]
fn c04_q_read_all_any_count() {
    let count: u32 = kani::any();
    let budget: i64 = kani::any();
    kani::assume(budget >= -16 && budget <= 0xffff_ffff - 16); // what parse_frame can pass
    let tail: [u8; 3] = kani::any();
    let mut reader = AseReader::with(&tail[..]);
    let r = Chunk::read_all(count, budget, &mut reader);
    match &r {
        Ok(v) => assert!(count == 0 && v.is_empty()),
        Err(_) => assert!(count > 0, "declared chunks that are not there are an error value"),
    }
    kani::cover!(count == u32::MAX);
    kani::cover!(count == 0 && budget == -16);
    core::mem::forget(r);
}

/// C12: the chunk list reader reserves nothing that grows with the declared chunk count / frame byte count
#[kani::proof]
#[kani::unwind(4)]
#[kani::stub(alloc::fmt::format, crate::vklib::empty_format)]
#[kani::stub(std::vec::Vec::with_capacity, crate::vklib::checking_with_capacity_nostop)]
fn c12_q_read_all_declared_count() {
    let count: u32 = kani::any();
    let budget: i64 = kani::any();
    // the byte budget parse_frame passes: frame size (u32) - 16
    kani::assume(budget >= -16 && budget <= 0xffff_ffff - 16);
    let tail: [u8; 3] = kani::any();
    unsafe {
        crate::vklib::C12_INPUT_LEN = 19;
    }
    native_reservation_reset();
    let mut reader = AseReader::with(&tail[..]);
    let r = Chunk::read_all(count, budget, &mut reader);
    kani::cover!(count == u32::MAX && budget == 0xffff_ffff - 16);
    native_reservation_check();
    core::mem::forget(r);
}
