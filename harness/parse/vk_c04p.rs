//! C04 (parse-module part): frame and chunk framing with arbitrary header fields.
use super::*;
use crate::vklib::*;

/// a frame header with every field symbolic (byte count, magic, both chunk counts, duration) followed by nothing:
/// parse_frame returns a value (never panics), whatever the byte count and chunk counts claim
#[kani::proof]
#[kani::unwind(4)]
#[kani::stub(alloc::fmt::format, crate::vklib::empty_format)]
#[kani::stub(std::hash::RandomState::new, crate::vklib::fixed_random_state)]
fn c04_q_frame_header_any() {
    let h: [u8; 16] = kani::any();
    let mut reader = AseReader::with(&h[..]);
    let mut info = ParseInfo::new(1, 100);
    let r = parse_frame(&mut reader, 0, PixelFormat::Rgba, &mut info);
    let nbytes = rd32(&h, 0);
    let nchunks = if rd32(&h, 12) == 0 { rd16(&h, 6) as u32 } else { rd32(&h, 12) };
    if rd16(&h, 4) == 0xF1FA && nchunks == 0 {
        assert!(r.is_ok(), "an empty frame loads whatever its byte-count field says");
    }
    if nchunks > 0 {
        assert!(r.is_err(), "declared chunks that are not there are an error value");
    }
    kani::cover!(nbytes == 0 && r.is_ok());
    kani::cover!(nbytes == 15 && nchunks == 1);
    kani::cover!(rd16(&h, 4) != 0xF1FA);
    core::mem::forget(r);
    core::mem::forget(info);
}

/// one chunk header with symbolic size and type inside a frame with a symbolic byte budget; 6 payload bytes follow
#[kani::proof]
#[kani::unwind(4)]
#[kani::stub(alloc::fmt::format, crate::vklib::empty_format)]
fn c04_q_chunk_header_any() {
    let buf: [u8; 12] = kani::any();
    let mut budget: i64 = kani::any();
    let size = rd32(&buf, 0);
    kani::assume(size <= 12); // payload allocation stays small; larger declared sizes are C12's subject
    let mut reader = AseReader::with(&buf[..]);
    let r = Chunk::read(&mut budget, &mut reader);
    if let Ok(c) = &r {
        assert!(size >= 6 && c.data.len() == size as usize - 6, "payload length == declared size - header");
    }
    if size < 6 {
        assert!(r.is_err(), "a chunk smaller than its own header is rejected");
    }
    kani::cover!(r.is_ok() && size == 12);
    kani::cover!(size == 5);
    core::mem::forget(r);
}
