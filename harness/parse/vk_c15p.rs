//! C15 (parse-module part): colour depth, pixel ratio, and Err propagation from chunk decoders through parse_frame.
use super::*;
use crate::vklib::*;

/// colour depth over all of u16: only 8 / 16 / 32 are accepted
#[kani::proof]
#[kani::stub(alloc::fmt::format, crate::vklib::empty_format)]
fn c15_q_color_depth() {
    let depth: u16 = kani::any();
    let tci: u8 = kani::any();
    let r = parse_pixel_format(depth, tci);
    match &r {
        Ok(PixelFormat::Indexed { transparent_color_index }) => assert!(depth == 8 && *transparent_color_index == tci),
        Ok(PixelFormat::Grayscale) => assert!(depth == 16),
        Ok(PixelFormat::Rgba) => assert!(depth == 32),
        Err(_) => assert!(depth != 8 && depth != 16 && depth != 32, "supported depth rejected"),
    }
    kani::cover!(depth == 24);
    kani::cover!(depth == 8 && tci == 200);
    core::mem::forget(r);
}

fn frame_with_one_chunk_fails(ty: u16, payload: &[u8]) {
    frame_n_with_one_chunk_fails(0, ty, payload);
}
fn frame_n_with_one_chunk_fails(frame_id: u16, ty: u16, payload: &[u8]) {
    let bytes = mk_frame(&[mk_chunk(ty, payload)], 100, 1, 1);
    let mut reader = AseReader::with(&bytes[..]);
    let mut info = ParseInfo::new(2, 100);
    let r = parse_frame(&mut reader, frame_id, PixelFormat::Rgba, &mut info);
    assert!(r.is_err(), "an unsupported feature inside a frame makes the frame (hence the load) fail");
    kani::cover!(true);
    core::mem::forget(r);
    core::mem::forget(info);
}

/// the Err of each chunk decoder reaches the caller of parse_frame (the `?` in every dispatch arm)
#[kani::proof]
#[kani::unwind(9)]
#[kani::stub(alloc::fmt::format, crate::vklib::empty_format)]
#[kani::stub(std::hash::RandomState::new, crate::vklib::fixed_random_state)]
fn c15_q_frame_propagates_color_profile_error() {
    let mut p = Vec::new();
    let ty: u16 = kani::any();
    let flags: u16 = kani::any();
    kani::assume(!((ty == 0 || ty == 1) && flags & 1 == 0));
    put16(&mut p, ty);
    put16(&mut p, flags);
    put_any(&mut p, 12);
    frame_with_one_chunk_fails(0x2007, &p);
}

#[kani::proof]
#[kani::unwind(9)]
#[kani::stub(alloc::fmt::format, crate::vklib::empty_format)]
#[kani::stub(std::hash::RandomState::new, crate::vklib::fixed_random_state)]
fn c15_q_frame_propagates_layer_error() {
    let mut p = Vec::new();
    put_any(&mut p, 2);
    let ty: u16 = kani::any();
    let mode: u16 = kani::any();
    kani::assume(ty > 2 || mode > 18);
    kani::assume(ty != 2); // keeps the chunk length concrete (type 2 carries 4 more bytes)
    put16(&mut p, ty);
    put_any(&mut p, 6);
    put16(&mut p, mode);
    put_any(&mut p, 4);
    put_any_ascii(&mut p, 1);
    frame_with_one_chunk_fails(0x2004, &p);
}


#[kani::proof]
#[kani::unwind(9)]
#[kani::stub(alloc::fmt::format, crate::vklib::empty_format)]
#[kani::stub(std::hash::RandomState::new, crate::vklib::fixed_random_state)]
fn c15_q_frame_propagates_tag_direction_error() {
    let mut p = Vec::new();
    put16(&mut p, 1);
    put_zeros(&mut p, 8);
    put_any(&mut p, 4);
    let dir: u8 = kani::any();
    kani::assume(dir > 2);
    p.push(dir);
    put_any(&mut p, 12);
    put_any_ascii(&mut p, 0);
    frame_with_one_chunk_fails(0x2018, &p);
}

/// the same in a frame after the first (tags there are not kept, but an unsupported direction is still refused)
#[kani::proof]
#[kani::unwind(9)]
#[kani::stub(alloc::fmt::format, crate::vklib::empty_format)]
#[kani::stub(std::hash::RandomState::new, crate::vklib::fixed_random_state)]
fn c15_q_frame1_propagates_tag_direction_error() {
    let mut p = Vec::new();
    put16(&mut p, 1);
    put_zeros(&mut p, 8);
    put_any(&mut p, 4);
    let dir: u8 = kani::any();
    kani::assume(dir > 2);
    p.push(dir);
    put_any(&mut p, 12);
    put_any_ascii(&mut p, 0);
    frame_n_with_one_chunk_fails(1, 0x2018, &p);
}

/// header: pixel aspect ratio other than 1:1 (or a zero component) is refused; colour depth likewise; everything
/// else in the 128 header bytes is symbolic. Frame count 0 keeps the harness at the header.
#[kani::proof]
#[kani::unwind(8)]
#[kani::stub(alloc::fmt::format, crate::vklib::empty_format)]
#[kani::stub(std::hash::RandomState::new, crate::vklib::fixed_random_state)]
fn c15_q_header_pixel_ratio_and_depth() {
    let mut h: [u8; 128] = kani::any();
    h[4] = 0xE0;
    h[5] = 0xA5;
    h[6] = 0; // zero frames
    h[7] = 0;
    let depth = rd16(&h, 12);
    let pw = h[34];
    let ph = h[35];
    let r = read_aseprite(&h[..]);
    let ratio_ok = pw == 0 || ph == 0 || (pw == 1 && ph == 1);
    let depth_ok = depth == 8 || depth == 16 || depth == 32;
    assert!(r.is_ok() == (ratio_ok && depth_ok), "non-1:1 pixel ratio / unknown colour depth is refused, 1:1 and zero components load");
    kani::cover!(pw == 2 && ph == 1 && depth == 32);
    kani::cover!(pw == 0 && ph == 7 && r.is_ok());
    kani::cover!(pw == 1 && ph == 1 && depth == 15);
    core::mem::forget(r);
}
