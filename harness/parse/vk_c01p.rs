//! C01 (parse-module part): file header, per-frame durations, chunk order -> entity order.
use super::*;
use crate::layer::vkl::*;
use crate::vklib::*;

fn header(h: &mut [u8; 128], nframes: u16) {
    h[4] = 0xE0;
    h[5] = 0xA5;
    h[6] = nframes as u8;
    h[7] = (nframes >> 8) as u8;
    h[34] = 1; // pixel ratio 1:1 (other values: C15 / C07)
    h[35] = 1;
}
fn empty_frame(v: &mut Vec<u8>, duration: u16) {
    put32(v, 16);
    put16(v, 0xF1FA);
    put16(v, 0);
    put16(v, duration);
    put16(v, 0);
    put32(v, 0);
}

/// header + N empty frames: canvas size, pixel format, transparent index, frame count and per-frame durations,
/// with every other header byte symbolic
fn header_and_frames<const N: usize>() {
    let mut h: [u8; 128] = kani::any();
    header(&mut h, N as u16);
    let depth = rd16(&h, 12);
    kani::assume(depth == 8 || depth == 16 || depth == 32);
    let mut v: Vec<u8> = Vec::with_capacity(128 + 16 * N);
    v.extend_from_slice(&h);
    let d: [u16; N] = kani::any();
    for i in 0..N {
        empty_frame(&mut v, d[i]);
    }
    let f = match read_aseprite(&v[..]) {
        Ok(f) => f,
        Err(e) => {
            core::mem::forget(e);
            assert!(false, "well-formed file loads");
            return;
        }
    };
    assert!(f.width() == rd16(&h, 8) as usize && f.height() == rd16(&h, 10) as usize, "canvas size");
    assert!(f.size() == (f.width(), f.height()));
    assert!(f.num_frames() == N as u32, "frame count");
    match f.pixel_format() {
        PixelFormat::Rgba => assert!(depth == 32 && !f.is_indexed_color() && f.transparent_color_index().is_none()),
        PixelFormat::Grayscale => assert!(depth == 16 && !f.is_indexed_color() && f.transparent_color_index().is_none()),
        PixelFormat::Indexed { transparent_color_index } => {
            assert!(depth == 8 && f.is_indexed_color());
            assert!(transparent_color_index == h[28] && f.transparent_color_index() == Some(h[28]), "transparent index");
        }
    }
    for i in 0..N {
        assert!(f.frame(i as u32).duration() == d[i] as u32, "per-frame duration, in file order");
    }
    assert!(f.num_layers() == 0 && f.num_tags() == 0 && f.slices().len() == 0 && f.palette().is_none());
    kani::cover!(depth == 8 && h[28] == 200);
    kani::cover!(f.width() == 65535 && d.last().map_or(true, |x| *x == 65535));
    core::mem::forget(f);
}

/// header alone (frame count 0): canvas size, pixel format, transparent index with every unused header byte symbolic
#[kani::proof]
#[kani::unwind(8)]
#[kani::stub(alloc::fmt::format, crate::vklib::empty_format)]
#[kani::stub(std::hash::RandomState::new, crate::vklib::fixed_random_state)]
fn c01_q_header_no_frames() {
    let mut h: [u8; 128] = kani::any();
    header(&mut h, 0);
    let depth = rd16(&h, 12);
    kani::assume(depth == 8 || depth == 16 || depth == 32);
    let f = match read_aseprite(&h[..]) {
        Ok(f) => f,
        Err(e) => {
            core::mem::forget(e);
            assert!(false, "well-formed header loads");
            return;
        }
    };
    assert!(f.width() == rd16(&h, 8) as usize && f.height() == rd16(&h, 10) as usize, "canvas size");
    assert!(f.num_frames() == 0 && f.num_layers() == 0);
    match f.pixel_format() {
        PixelFormat::Rgba => assert!(depth == 32 && f.transparent_color_index().is_none()),
        PixelFormat::Grayscale => assert!(depth == 16 && f.transparent_color_index().is_none()),
        PixelFormat::Indexed { transparent_color_index } => {
            assert!(depth == 8 && f.is_indexed_color());
            assert!(transparent_color_index == h[28] && f.transparent_color_index() == Some(h[28]), "transparent index");
        }
    }
    kani::cover!(depth == 8 && h[28] == 200);
    kani::cover!(f.width() == 65535 && f.height() == 1);
    core::mem::forget(f);
}

/// per-frame header: the duration lands in that frame's slot, whichever chunk-count field is used
#[kani::proof]
#[kani::unwind(6)]
#[kani::stub(alloc::fmt::format, crate::vklib::empty_format)]
#[kani::stub(std::hash::RandomState::new, crate::vklib::fixed_random_state)]
fn c01_q_frame_duration() {
    let d: u16 = kani::any();
    let fid: u16 = kani::any();
    kani::assume(fid < 3);
    let mut v: Vec<u8> = Vec::with_capacity(16);
    empty_frame(&mut v, d);
    let mut reader = AseReader::with(&v[..]);
    let mut info = ParseInfo::new(3, 77);
    let r = parse_frame(&mut reader, fid, PixelFormat::Rgba, &mut info);
    assert!(r.is_ok());
    for i in 0..3u16 {
        assert!(info.frame_times[i as usize] == if i == fid { d } else { 77 }, "duration of frame i; others keep the header default");
    }
    kani::cover!(fid == 2 && d == 65535);
    core::mem::forget(r);
    core::mem::forget(info);
}

fn layer_payload(v: &mut Vec<u8>) -> (u16, u16, u8, u8) {
    let flags: u16 = kani::any();
    let level: u16 = kani::any();
    let op: u8 = kani::any();
    let c: u8 = kani::any();
    kani::assume(c < 0x80);
    put32(v, 19 + 6);
    put16(v, 0x2004);
    put16(v, flags);
    put16(v, 0);
    put16(v, level);
    put_zeros(v, 4);
    put16(v, 0);
    v.push(op);
    put_zeros(v, 3);
    put16(v, 1);
    v.push(c);
    (flags, level, op, c)
}

/// two layer chunks and two slice chunks in one frame: entity i holds the i-th chunk's attributes
#[kani::proof]
#[kani::unwind(9)]
#[kani::stub(alloc::fmt::format, crate::vklib::empty_format)]
#[kani::stub(std::hash::RandomState::new, crate::vklib::fixed_random_state)]
fn c01_q_frame_preserves_chunk_order() {
    let mut body: Vec<u8> = Vec::with_capacity(128);
    let a = layer_payload(&mut body);
    let b = layer_payload(&mut body);
    let mut names = [0u8; 2];
    for i in 0..2 {
        // slice chunk: 0 keys, name of one symbolic byte
        let c: u8 = kani::any();
        kani::assume(c < 0x80);
        names[i] = c;
        put32(&mut body, 15 + 6);
        put16(&mut body, 0x2022);
        put_zeros(&mut body, 12);
        put16(&mut body, 1);
        body.push(c);
    }
    let mut bytes: Vec<u8> = Vec::with_capacity(16 + body.len());
    put32(&mut bytes, 16 + body.len() as u32);
    put16(&mut bytes, 0xF1FA);
    put16(&mut bytes, 4);
    put16(&mut bytes, 100);
    put16(&mut bytes, 0);
    put32(&mut bytes, 0);
    bytes.extend_from_slice(&body);
    let mut reader = AseReader::with(&bytes[..]);
    let mut info = ParseInfo::new(1, 100);
    let r = parse_frame(&mut reader, 0, PixelFormat::Rgba, &mut info);
    assert!(r.is_ok());
    assert!(info.layers.len() == 2 && info.slices.len() == 2);
    let exp = [a, b];
    for i in 0..2 {
        let l = &info.layers[i];
        assert!(l.flags.bits() == (exp[i].0 as u32 & 0x7f) && level_of(l) == exp[i].1 && l.opacity == exp[i].2, "layer i == i-th layer chunk");
        assert!(l.name.len() == 1 && l.name.as_bytes()[0] == exp[i].3);
        assert!(info.slices[i].name.len() == 1 && info.slices[i].name.as_bytes()[0] == names[i], "slice i == i-th slice chunk");
    }
    kani::cover!(a.1 == 0 && b.1 == 1 && names[0] != names[1]);
    core::mem::forget(r);
    core::mem::forget(info);
}
