//! C16 (parse part): loading the same bytes twice gives equal observations.
use super::*;
use crate::layer::vkl::*;
use crate::vklib::*;

#[kani::proof]
#[kani::unwind(9)]
#[kani::stub(alloc::fmt::format, crate::vklib::empty_format)]
#[kani::stub(std::hash::RandomState::new, crate::vklib::fixed_random_state)]
fn c16_q_same_bytes_same_result() {
    let mut body: Vec<u8> = Vec::with_capacity(64);
    put32(&mut body, 19 + 6);
    put16(&mut body, 0x2004);
    put_any(&mut body, 2);
    put16(&mut body, 0);
    put_any(&mut body, 6);
    put_any(&mut body, 2); // blend mode word: may be invalid -> both loads must fail alike
    put_any(&mut body, 4);
    put_any_ascii(&mut body, 1);
    let mut bytes: Vec<u8> = Vec::with_capacity(16 + body.len());
    put32(&mut bytes, 16 + body.len() as u32);
    put16(&mut bytes, 0xF1FA);
    put16(&mut bytes, 1);
    put_any(&mut bytes, 4);
    put32(&mut bytes, 0);
    bytes.extend_from_slice(&body);
    let mut ia = ParseInfo::new(1, 0);
    let mut ib = ParseInfo::new(1, 0);
    let a = parse_frame(&mut AseReader::with(&bytes[..]), 0, PixelFormat::Rgba, &mut ia);
    let b = parse_frame(&mut AseReader::with(&bytes[..]), 0, PixelFormat::Rgba, &mut ib);
    assert!(a.is_ok() == b.is_ok(), "same bytes: both loads succeed or both fail");
    if a.is_ok() {
        let (x, y) = (&ia.layers[0], &ib.layers[0]);
        assert!(x.flags == y.flags && level_of(x) == level_of(y) && x.opacity == y.opacity && x.blend_mode == y.blend_mode);
        assert!(x.name.as_bytes()[0] == y.name.as_bytes()[0] && ia.frame_times[0] == ib.frame_times[0]);
    }
    kani::cover!(a.is_ok());
    kani::cover!(a.is_err());
    core::mem::forget(a);
    core::mem::forget(b);
    core::mem::forget(ia);
    core::mem::forget(ib);
}
