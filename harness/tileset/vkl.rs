//! Constructors for private-field tileset types.
use super::*;

pub(crate) fn mk_tile_size(width: u16, height: u16) -> TileSize {
    TileSize { width, height }
}
