//! C06 (pixel part): stored pixels decode to RGBA for the three formats; raw and "compressed" storage agree
//! (under the identity model of unzip; natively a stored-block zlib stream).
use super::*;
use crate::palette::vkl::*;
use crate::vklib::*;

fn read2(fmt: PixelFormat, data: &[u8], compressed: bool) -> Result<RawPixels> {
    if compressed {
        let z = compressed_payload(data);
        let r = RawPixels::from_compressed(AseReader::new(&z), fmt, 2);
        core::mem::forget(z);
        r
    } else {
        RawPixels::from_raw(AseReader::new(data), fmt, 2)
    }
}

fn rgba2(compressed: bool) {
    let b: [u8; 8] = kani::any();
    let r = read2(PixelFormat::Rgba, &b, compressed);
    match &r {
        Ok(RawPixels::Rgba(v)) => {
            assert!(v.len() == 2, "one pixel per 4 bytes");
            for i in 0..2 {
                assert!(v[i].0[0] == b[4 * i] && v[i].0[1] == b[4 * i + 1] && v[i].0[2] == b[4 * i + 2] && v[i].0[3] == b[4 * i + 3], "RGBA verbatim");
            }
        }
        _ => assert!(false, "RGBA pixels decode to the RGBA container"),
    }
    let p = r.unwrap().validate(None, &PixelFormat::Rgba, false).unwrap();
    let img = p.clone_as_image_rgba();
    assert!(img.len() == 2 && img[1].0[3] == b[7] && img[0].0[0] == b[0]);
    kani::cover!(b[3] == 0 && b[7] == 255);
    core::mem::forget(img);
    core::mem::forget(p);
}
#[kani::proof]
#[kani::unwind(6)]
#[kani::stub(alloc::fmt::format, crate::vklib::empty_format)]
fn c06_q_rgba_raw() {
    rgba2(false);
}
#[kani::proof]
#[kani::unwind(6)]
#[kani::stub(alloc::fmt::format, crate::vklib::empty_format)]
#[kani::stub(crate::reader::AseReader::unzip, crate::vklib::stub_unzip_identity)]
#[kani::stub(crate::vklib::stubs_probe, crate::vklib::stubs_probe_stubbed)]
fn c06_q_rgba_compressed() {
    rgba2(true);
}

fn gray2(compressed: bool) {
    let b: [u8; 4] = kani::any();
    let r = read2(PixelFormat::Grayscale, &b, compressed);
    let p = match r {
        Ok(p) => p.validate(None, &PixelFormat::Grayscale, false).unwrap(),
        Err(e) => {
            core::mem::forget(e);
            assert!(false, "grayscale pixels decode");
            return;
        }
    };
    let img = p.clone_as_image_rgba();
    assert!(img.len() == 2);
    for i in 0..2 {
        let (v, a) = (b[2 * i], b[2 * i + 1]);
        assert!(img[i].0[0] == v && img[i].0[1] == v && img[i].0[2] == v && img[i].0[3] == a, "grayscale (v,a) -> (v,v,v,a)");
    }
    kani::cover!(b[0] == 10 && b[1] == 200);
    core::mem::forget(img);
    core::mem::forget(p);
}
#[kani::proof]
#[kani::unwind(6)]
#[kani::stub(alloc::fmt::format, crate::vklib::empty_format)]
fn c06_q_gray_raw() {
    gray2(false);
}
#[kani::proof]
#[kani::unwind(6)]
#[kani::stub(alloc::fmt::format, crate::vklib::empty_format)]
#[kani::stub(crate::reader::AseReader::unzip, crate::vklib::stub_unzip_identity)]
#[kani::stub(crate::vklib::stubs_probe, crate::vklib::stubs_probe_stubbed)]
fn c06_t_gray_compressed() {
    gray2(true);
}

/// indexed pixels against the sparse palette {0, 3} with symbolic colours (alpha below 255 allowed), symbolic
/// transparent index and background flag: palette colour, alpha 0 iff index == transparent index on a
/// non-background layer
fn indexed2(compressed: bool) {
    let b: [u8; 2] = kani::any();
    kani::assume((b[0] == 0 || b[0] == 3) && (b[1] == 0 || b[1] == 3));
    let c0: [u8; 4] = kani::any();
    let c3: [u8; 4] = kani::any();
    let tci: u8 = kani::any();
    let bg: bool = kani::any();
    let fmt = PixelFormat::Indexed { transparent_color_index: tci };
    let pal = std::sync::Arc::new(mk_palette(&[(0, c0), (3, c3)]));
    let r = read2(fmt, &b, compressed);
    let p = match r {
        Ok(p) => p.validate(Some(pal), &fmt, bg).unwrap(),
        Err(e) => {
            core::mem::forget(e);
            assert!(false, "indexed pixels decode");
            return;
        }
    };
    let img = p.clone_as_image_rgba();
    assert!(img.len() == 2);
    for i in 0..2 {
        let c = if b[i] == 0 { c0 } else { c3 };
        let a = if b[i] == tci && !bg { 0 } else { c[3] };
        assert!(img[i].0[0] == c[0] && img[i].0[1] == c[1] && img[i].0[2] == c[2], "indexed pixel -> palette colour");
        assert!(img[i].0[3] == a, "transparent index is fully transparent except on background layers");
    }
    kani::cover!(b[0] == tci && !bg && c0[3] == 255);
    kani::cover!(b[1] == tci && bg && c3[3] == 100);
    core::mem::forget(img);
    core::mem::forget(p);
}
#[kani::proof]
#[kani::unwind(8)]
#[kani::stub(alloc::fmt::format, crate::vklib::empty_format)]
#[kani::stub(std::collections::HashMap::insert, crate::vklib::hm_insert)]
#[kani::stub(std::collections::HashMap::with_hasher, crate::vklib::hm_with_hasher)]
#[kani::stub(crate::palette::ColorPalette::color, crate::vklib::side_color)]
#[kani::stub(std::collections::HashMap::len, crate::vklib::hm_len)]
fn c06_q_indexed_raw() {
    indexed2(false);
}
#[kani::proof]
#[kani::unwind(8)]
#[kani::stub(alloc::fmt::format, crate::vklib::empty_format)]
#[kani::stub(crate::reader::AseReader::unzip, crate::vklib::stub_unzip_identity)]
#[kani::stub(crate::vklib::stubs_probe, crate::vklib::stubs_probe_stubbed)]
#[kani::stub(std::collections::HashMap::insert, crate::vklib::hm_insert)]
#[kani::stub(std::collections::HashMap::with_hasher, crate::vklib::hm_with_hasher)]
#[kani::stub(crate::palette::ColorPalette::color, crate::vklib::side_color)]
#[kani::stub(std::collections::HashMap::len, crate::vklib::hm_len)]
fn c06_t_indexed_compressed() {
    indexed2(true);
}
