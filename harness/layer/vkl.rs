//! Constructors for private-field layer types (shared by harnesses of several properties).
use super::*;

pub(crate) fn mk_layer(flags: u32, level: u16, mode: BlendMode, opacity: u8, ty: LayerType) -> LayerData {
    LayerData {
        flags: LayerFlags::from_bits_truncate(flags),
        name: String::new(),
        blend_mode: mode,
        opacity,
        layer_type: ty,
        user_data: None,
        child_level: level,
    }
}

pub(crate) fn mk_named_layer(name: String, flags: u32, level: u16) -> LayerData {
    LayerData {
        flags: LayerFlags::from_bits_truncate(flags),
        name,
        blend_mode: BlendMode::Normal,
        opacity: 255,
        layer_type: LayerType::Image,
        user_data: None,
        child_level: level,
    }
}

pub(crate) fn level_of(l: &LayerData) -> u16 {
    l.child_level
}

pub(crate) fn parents_of(l: &LayersData) -> &Vec<Option<u32>> {
    &l.parents
}

pub(crate) fn any_blend_mode() -> BlendMode {
    let id: u16 = kani::any();
    kani::assume(id < 19);
    match parse_blend_mode(id) {
        Ok(m) => m,
        Err(_) => unreachable!(),
    }
}

/// Forest precondition of the file format: first level 0, each level at most predecessor + 1.
pub(crate) fn is_forest(levels: &[u16]) -> bool {
    if levels.is_empty() {
        return true;
    }
    if levels[0] != 0 {
        return false;
    }
    let mut i = 1;
    while i < levels.len() {
        if levels[i] as u32 > levels[i - 1] as u32 + 1 {
            return false;
        }
        i += 1;
    }
    true
}

/// spec: nearest preceding layer with a smaller nesting level, none at level 0
pub(crate) fn spec_parent(levels: &[u16], i: usize) -> Option<u32> {
    let mut j = i;
    while j > 0 {
        j -= 1;
        if levels[j] < levels[i] {
            return Some(j as u32);
        }
    }
    None
}

/// spec: visible iff own VISIBLE bit and every ancestor's VISIBLE bit
pub(crate) fn spec_visible(levels: &[u16], flags: &[u16], i: usize) -> bool {
    let mut cur = i;
    loop {
        if flags[cur] & 1 == 0 {
            return false;
        }
        match spec_parent(levels, cur) {
            None => return true,
            Some(p) => cur = p as usize,
        }
    }
}
