//! C09 — layer parents and visibility follow the nesting levels.
use super::vkl::*;
use super::*;
use crate::vklib::*;
use crate::{cel, PixelFormat, TilesetsById};

/// spec: nearest preceding layer with a smaller nesting level, none at level 0
fn spec_parent(levels: &[u16], i: usize) -> Option<u32> {
    let mut j = i;
    while j > 0 {
        j -= 1;
        if levels[j] < levels[i] {
            return Some(j as u32);
        }
    }
    None
}

fn check_parents<const N: usize>() {
    let levels: [u16; N] = kani::any();
    kani::assume(is_forest(&levels));
    let mut v = Vec::with_capacity(N);
    for i in 0..N {
        v.push(mk_layer(1, levels[i], BlendMode::Normal, 255, LayerType::Image));
    }
    let ld = match LayersData::from_vec(v) {
        Ok(l) => l,
        Err(e) => {
            core::mem::forget(e);
            assert!(false, "from_vec failed on a forest");
            return;
        }
    };
    let p = parents_of(&ld);
    assert!(p.len() == N);
    for i in 0..N {
        let exp = spec_parent(&levels, i);
        assert!(p[i] == exp, "parent is nearest preceding layer with smaller level");
        if levels[i] == 0 {
            assert!(p[i].is_none());
        }
        if let Some(q) = p[i] {
            assert!((q as usize) < i, "parent id lower than child id");
        }
    }
    kani::cover!(N >= 3 && p[N - 1] == Some(0) && levels[N - 2] >= 1, "sibling after nested child resolves to root");
    kani::cover!(p[N - 1] == Some((N - 2) as u32), "chain");
    core::mem::forget(ld);
}

#[kani::proof]
#[kani::unwind(6)]
#[kani::stub(alloc::fmt::format, crate::vklib::empty_format)]
fn c09_q_parents_n4() {
    check_parents::<4>();
}

#[kani::proof]
#[kani::unwind(8)]
#[kani::stub(alloc::fmt::format, crate::vklib::empty_format)]
fn c09_q_parents_n6() {
    check_parents::<6>();
}

#[kani::proof]
#[kani::unwind(10)]
#[kani::stub(alloc::fmt::format, crate::vklib::empty_format)]
fn c09_q_parents_n8() {
    check_parents::<8>();
}

/// visibility = own flag AND all ancestors' flags, through the public accessors on a constructed sprite
fn check_visible<const N: usize>() {
    let levels: [u16; N] = kani::any();
    let flags: [u16; N] = kani::any();
    kani::assume(is_forest(&levels));
    let mut v = Vec::with_capacity(N);
    for i in 0..N {
        v.push(mk_layer(flags[i] as u32, levels[i], BlendMode::Normal, 255, LayerType::Image));
    }
    let ld = LayersData::from_vec(v).unwrap();
    let f = mk_file(1, 1, 1, PixelFormat::Rgba, ld, cel::CelsData::new(1), TilesetsById::new(), Vec::new());
    // spec visibility computed bottom-up over the spec parent relation
    let mut vis = [false; N];
    for i in 0..N {
        let own = flags[i] & 1 != 0;
        vis[i] = match spec_parent(&levels, i) {
            None => own,
            Some(p) => own && vis[p as usize],
        };
    }
    let i: usize = kani::any();
    kani::assume(i < N);
    let l = f.layer(i as u32);
    assert!(l.is_visible() == vis[i], "visible iff own flag and all ancestors' flags");
    match l.parent() {
        None => assert!(spec_parent(&levels, i).is_none()),
        Some(p) => {
            assert!(Some(p.id()) == spec_parent(&levels, i));
            assert!(p.id() < l.id());
        }
    }
    kani::cover!(i == N - 1 && levels[i] == 2 && !vis[i] && flags[i] & 1 != 0 && flags[i - 1] & 1 != 0,
        "hidden through a grandparent only");
    kani::cover!(i == N - 1 && levels[i] == 2 && vis[i]);
    core::mem::forget(f);
}

#[kani::proof]
#[kani::unwind(6)]
#[kani::stub(alloc::fmt::format, crate::vklib::empty_format)]
#[kani::stub(std::hash::RandomState::new, crate::vklib::fixed_random_state)]
fn c09_q_visible_n4() {
    check_visible::<4>();
}

#[kani::proof]
#[kani::unwind(8)]
#[kani::stub(alloc::fmt::format, crate::vklib::empty_format)]
#[kani::stub(std::hash::RandomState::new, crate::vklib::fixed_random_state)]
fn c09_q_visible_n6() {
    check_visible::<6>();
}

#[kani::proof]
#[kani::unwind(10)]
#[kani::stub(alloc::fmt::format, crate::vklib::empty_format)]
#[kani::stub(std::hash::RandomState::new, crate::vklib::fixed_random_state)]
fn c09_t_visible_n8() {
    check_visible::<8>();
}
#[kani::proof]
#[kani::unwind(14)]
#[kani::stub(alloc::fmt::format, crate::vklib::empty_format)]
fn c09_t_parents_n12() {
    check_parents::<12>();
}
#[kani::proof]
#[kani::unwind(12)]
#[kani::stub(alloc::fmt::format, crate::vklib::empty_format)]
#[kani::stub(std::hash::RandomState::new, crate::vklib::fixed_random_state)]
fn c09_t_visible_n10() {
    check_visible::<10>();
}
