//! Constructors for private-field tag types.
use super::*;

pub(crate) fn mk_tag(name: String, from_frame: u16, to_frame: u16) -> Tag {
    Tag { name, from_frame, to_frame, repeat: 0, animation_direction: AnimationDirection::Forward, user_data: None }
}
