//! C17 — mode-independent alpha and identity laws (no reference implementation needed).
//! Everything is real here (no stubs); each run is restricted to the LAW assertions (`--property`), so the
//! division / float circuits that cannot influence them are sliced away. Law (e) "no overflow check or debug
//! assertion fires" is the set of *unrestricted* harnesses of C03 that this property's configuration re-runs.
use super::vk_ref::{any_color, ceq};
use super::*;

fn laws(mode: fn(Color8, Color8, u8) -> Color8) {
    let b = any_color();
    let s = any_color();
    let o: u8 = kani::any();
    let r = mode(b, s, o);
    let n = normal(b, s, o);
    // (a) alpha equals the Normal-mode alpha
    assert!(r.0[3] == n.0[3], "LAW a: result alpha == normal alpha");
    // (b) transparent source or zero opacity leaves a visible backdrop unchanged
    if b.0[3] != 0 && (s.0[3] == 0 || o == 0) {
        assert!(ceq(r, b), "LAW b: transparent source / zero opacity leaves visible backdrop unchanged");
    }
    // (c) over a fully transparent backdrop: source colour, alpha scaled by the opacity
    if b.0[3] == 0 {
        let p = s.0[3] as u32 * o as u32;
        let a = ((2 * p + 255) / 510) as u8; // round(sa*o/255)
        assert!(r.0[3] == a, "LAW c: alpha over transparent backdrop == round(sa*o/255)");
        assert!(a == 0 || (r.0[0] == s.0[0] && r.0[1] == s.0[1] && r.0[2] == s.0[2]),
            "LAW c: colour over transparent backdrop == source colour");
    }
    kani::cover!(b.0[3] != 0 && s.0[3] != 0 && o != 0 && r.0[3] == 255);
    kani::cover!(b.0[3] == 0 && r.0[3] == 77);
    kani::cover!(b.0[3] != 0 && o == 0 && s.0[3] != 0);
}

macro_rules! law_harness {
    ($name:ident, $mode:ident) => {
        #[kani::proof]
        fn $name() {
            laws($mode);
        }
    };
}
law_harness!(c17_q_laws_normal, normal);
law_harness!(c17_q_laws_multiply, multiply);
law_harness!(c17_q_laws_screen, screen);
law_harness!(c17_q_laws_overlay, overlay);
law_harness!(c17_q_laws_darken, darken);
law_harness!(c17_q_laws_lighten, lighten);
law_harness!(c17_q_laws_color_dodge, color_dodge);
law_harness!(c17_q_laws_color_burn, color_burn);
law_harness!(c17_q_laws_hard_light, hard_light);
law_harness!(c17_q_laws_difference, difference);
law_harness!(c17_q_laws_exclusion, exclusion);
law_harness!(c17_q_laws_addition, addition);
law_harness!(c17_q_laws_subtract, subtract);
law_harness!(c17_q_laws_divide, divide);

/// The five float modes (soft light, hue, saturation, color, luminosity): their direct law queries carry the f64
/// pipelines and do not finish (> 15 min each). They are decided compositionally instead: C03's structure lemmas
/// (c03_q_wrap_soft_light, c03_q_wrap_hsl_*, re-run by this property) show mode(b,s,o) == wrapper(b, s, o, s') with
/// s'.alpha == s.alpha, and this harness shows laws (a)-(c) for the wrapper over the REAL normal/merge with an
/// ARBITRARY s' colour -- hence for whatever the float pipelines compute.
#[kani::proof]
fn c17_q_laws_generic_wrapper() {
    let b = any_color();
    let s = any_color();
    let o: u8 = kani::any();
    let mut sp = any_color();
    sp.0[3] = s.0[3];
    let r = super::vk_c03::wrapper_spec(b, s, o, sp);
    let n = normal(b, s, o);
    assert!(r.0[3] == n.0[3], "LAW a: result alpha == normal alpha");
    if b.0[3] != 0 && (s.0[3] == 0 || o == 0) {
        assert!(ceq(r, b), "LAW b: transparent source / zero opacity leaves visible backdrop unchanged");
    }
    if b.0[3] == 0 {
        let p = s.0[3] as u32 * o as u32;
        let a = ((2 * p + 255) / 510) as u8;
        assert!(r.0[3] == a, "LAW c: alpha over transparent backdrop == round(sa*o/255)");
        assert!(a == 0 || (r.0[0] == s.0[0] && r.0[1] == s.0[1] && r.0[2] == s.0[2]),
            "LAW c: colour over transparent backdrop == source colour");
    }
    kani::cover!(b.0[3] != 0 && s.0[3] != 0 && o != 0 && r.0[3] == 255);
    kani::cover!(b.0[3] == 0 && r.0[3] == 77);
    kani::cover!(b.0[3] != 0 && o == 0 && s.0[3] != 0);
}

/// (d) Normal mode at full opacity with an opaque source returns the source
#[kani::proof]
fn c17_q_normal_opaque_identity() {
    let b = any_color();
    let mut s = any_color();
    s.0[3] = 255;
    let r = normal(b, s, 255);
    assert!(ceq(r, s), "LAW d: normal(b, opaque s, 255) == s");
    kani::cover!(b.0[3] != 0 && b.0[0] != s.0[0]);
    kani::cover!(b.0[3] == 0);
}
