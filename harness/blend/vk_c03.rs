//! C03 — blend modes reproduce Aseprite's blend arithmetic bit for bit.
//! Decomposition: leaves, channel kernels, `normal`, `merge`, and the new-blend wrapper lemma with `normal`/`merge`
//! abstracted as recording uninterpreted functions (congruence then gives mode == rgba_blender_<mode>_n).
use super::vk_ref as R;
use super::vk_ref::{any_color, ceq};
use super::*;

// ------------------------------------------------------------------------------------------------ leaves
#[kani::proof]
fn c03_q_leaf_mul_un8() {
    let a: u8 = kani::any();
    let b: u8 = kani::any();
    let r = mul_un8(a as i32, b as i32);
    assert!(r as i32 == R::MUL_UN8(a as i32, b as i32), "mul_un8 == MUL_UN8");
    // MUL_UN8 is exactly round-half-up(a*b/255) on this domain
    let p = a as u32 * b as u32;
    assert!(r as u32 == (2 * p + 255) / 510, "mul_un8 == round(a*b/255)");
    kani::cover!(a == 255 && b == 255 && r == 255);
}

#[kani::proof]
fn c03_q_leaf_div_un8() {
    // domain on which the three callers use it: 0 < a < b <= 255
    let a: u8 = kani::any();
    let b: u8 = kani::any();
    kani::assume(a > 0 && a < b);
    let r = div_un8(a as i32, b as i32);
    let e = R::DIV_UN8(a as u32, b as u32);
    assert!(e <= 255, "DIV_UN8 stays within a byte for a < b");
    assert!(r as u32 == e, "div_un8 == DIV_UN8");
    kani::cover!(r == 128);
}

#[kani::proof]
fn c03_q_leaf_blend8() {
    let back: u8 = kani::any();
    let src: u8 = kani::any();
    let op: u8 = kani::any();
    let r = blend8(back, src, op);
    let e = back as i32 + R::MUL_UN8(src as i32 - back as i32, op as i32);
    assert!(0 <= e && e <= 255, "merge channel stays within a byte");
    assert!(r as i32 == e, "blend8 == B + MUL_UN8(S - B, opacity)");
    kani::cover!(src < back && op == 128);
}

// ------------------------------------------------------------------------------------------------ kernels
macro_rules! kernel {
    ($name:ident, $imp:ident, $rf:ident) => {
        #[kani::proof]
        fn $name() {
            let b: u8 = kani::any();
            let s: u8 = kani::any();
            let e = R::$rf(b as i32, s as i32);
            assert!(0 <= e && e <= 255, "reference channel value is a byte (nothing is truncated by the cast)");
            let r = $imp(b as i32, s as i32);
            assert!(r as i32 == e, "channel kernel == Aseprite channel function");
            kani::cover!(b == 200 && s == 100);
        }
    };
}
kernel!(c03_t_kernel_multiply, blend_multiply, blend_multiply);
kernel!(c03_t_kernel_screen, blend_screen, blend_screen);
kernel!(c03_t_kernel_overlay, blend_overlay, blend_overlay);
kernel!(c03_t_kernel_darken, blend_darken, blend_darken);
kernel!(c03_t_kernel_lighten, blend_lighten, blend_lighten);
kernel!(c03_t_kernel_color_dodge, blend_color_dodge, blend_color_dodge);
kernel!(c03_t_kernel_color_burn, blend_color_burn, blend_color_burn);
kernel!(c03_t_kernel_hard_light, blend_hard_light, blend_hard_light);
kernel!(c03_t_kernel_difference, blend_difference, blend_difference);
kernel!(c03_t_kernel_exclusion, blend_exclusion, blend_exclusion);
kernel!(c03_t_kernel_divide, blend_divide, blend_divide);

#[path = "vk_softtab.rs"]
mod softtab;

/// Soft light (f64): compared with a table of the Aseprite formula precomputed in IEEE double arithmetic
/// (gen/softlight_table.py). The backdrop channel is enumerated by the harness loop (so that the sqrt / cubic
/// part constant-folds during symbolic execution), the source channel is symbolic: 256 x 2^8 = the whole domain.
fn soft_light_rows(lo: u16, hi: u16) {
    let s: u8 = kani::any();
    let mut b = lo;
    while b < hi {
        let r = blend_soft_light(b as i32, s as i32);
        assert!(0 <= r && r <= 255, "soft light result is a byte");
        assert!(r == softtab::SOFT_LIGHT[b as usize][s as usize] as i32, "soft light kernel == Aseprite (f64) table");
        b += 1;
    }
    kani::cover!(s == 200);
}
#[kani::proof]
#[kani::unwind(10)]
fn c03_t_soft_rows_000() {
    soft_light_rows(0, 8);
}
#[kani::proof]
#[kani::unwind(10)]
fn c03_t_soft_rows_008() {
    soft_light_rows(8, 16);
}
#[kani::proof]
#[kani::unwind(10)]
fn c03_t_soft_rows_016() {
    soft_light_rows(16, 24);
}
#[kani::proof]
#[kani::unwind(10)]
fn c03_t_soft_rows_024() {
    soft_light_rows(24, 32);
}
#[kani::proof]
#[kani::unwind(10)]
fn c03_t_soft_rows_032() {
    soft_light_rows(32, 40);
}
#[kani::proof]
#[kani::unwind(10)]
fn c03_t_soft_rows_040() {
    soft_light_rows(40, 48);
}
#[kani::proof]
#[kani::unwind(10)]
fn c03_t_soft_rows_048() {
    soft_light_rows(48, 56);
}
#[kani::proof]
#[kani::unwind(10)]
fn c03_t_soft_rows_056() {
    soft_light_rows(56, 64);
}
#[kani::proof]
#[kani::unwind(10)]
fn c03_t_soft_rows_064() {
    soft_light_rows(64, 72);
}
#[kani::proof]
#[kani::unwind(10)]
fn c03_t_soft_rows_072() {
    soft_light_rows(72, 80);
}
#[kani::proof]
#[kani::unwind(10)]
fn c03_t_soft_rows_080() {
    soft_light_rows(80, 88);
}
#[kani::proof]
#[kani::unwind(10)]
fn c03_t_soft_rows_088() {
    soft_light_rows(88, 96);
}
#[kani::proof]
#[kani::unwind(10)]
fn c03_t_soft_rows_096() {
    soft_light_rows(96, 104);
}
#[kani::proof]
#[kani::unwind(10)]
fn c03_t_soft_rows_104() {
    soft_light_rows(104, 112);
}
#[kani::proof]
#[kani::unwind(10)]
fn c03_t_soft_rows_112() {
    soft_light_rows(112, 120);
}
#[kani::proof]
#[kani::unwind(10)]
fn c03_t_soft_rows_120() {
    soft_light_rows(120, 128);
}
#[kani::proof]
#[kani::unwind(10)]
fn c03_t_soft_rows_128() {
    soft_light_rows(128, 136);
}
#[kani::proof]
#[kani::unwind(10)]
fn c03_t_soft_rows_136() {
    soft_light_rows(136, 144);
}
#[kani::proof]
#[kani::unwind(10)]
fn c03_t_soft_rows_144() {
    soft_light_rows(144, 152);
}
#[kani::proof]
#[kani::unwind(10)]
fn c03_t_soft_rows_152() {
    soft_light_rows(152, 160);
}
#[kani::proof]
#[kani::unwind(10)]
fn c03_t_soft_rows_160() {
    soft_light_rows(160, 168);
}
#[kani::proof]
#[kani::unwind(10)]
fn c03_t_soft_rows_168() {
    soft_light_rows(168, 176);
}
#[kani::proof]
#[kani::unwind(10)]
fn c03_t_soft_rows_176() {
    soft_light_rows(176, 184);
}
#[kani::proof]
#[kani::unwind(10)]
fn c03_t_soft_rows_184() {
    soft_light_rows(184, 192);
}
#[kani::proof]
#[kani::unwind(10)]
fn c03_t_soft_rows_192() {
    soft_light_rows(192, 200);
}
#[kani::proof]
#[kani::unwind(10)]
fn c03_t_soft_rows_200() {
    soft_light_rows(200, 208);
}
#[kani::proof]
#[kani::unwind(10)]
fn c03_t_soft_rows_208() {
    soft_light_rows(208, 216);
}
#[kani::proof]
#[kani::unwind(10)]
fn c03_t_soft_rows_216() {
    soft_light_rows(216, 224);
}
#[kani::proof]
#[kani::unwind(10)]
fn c03_t_soft_rows_224() {
    soft_light_rows(224, 232);
}
#[kani::proof]
#[kani::unwind(10)]
fn c03_t_soft_rows_232() {
    soft_light_rows(232, 240);
}
#[kani::proof]
#[kani::unwind(10)]
fn c03_t_soft_rows_240() {
    soft_light_rows(240, 248);
}
#[kani::proof]
#[kani::unwind(10)]
fn c03_t_soft_rows_248() {
    soft_light_rows(248, 256);
}
/// quick tier: the rows around the b <= 0.25 switch between the cubic and the sqrt branch (63/255 < 0.25 < 64/255)
#[kani::proof]
#[kani::unwind(10)]
fn c03_q_soft_rows_060_067() {
    soft_light_rows(60, 68);
}

// ------------------------------------------------------------------------------------------------ merge, normal
#[kani::proof]
fn c03_q_merge_full() {
    let b = any_color();
    let s = any_color();
    let o: u8 = kani::any();
    let r = merge(b, s, o);
    let e = R::rgba_blender_merge(b, s, o as i32);
    assert!(ceq(r, e), "merge == rgba_blender_merge");
    kani::cover!(b.0[3] != 0 && s.0[3] != 0 && r.0[3] != 0);
    kani::cover!(r.0[3] == 0 && b.0[3] != 0);
}

fn normal_channel(ch: usize) {
    let b = any_color();
    let s = any_color();
    let o: u8 = kani::any();
    let r = normal(b, s, o);
    assert!(R::normal_channel_matches(b, s, o as i32, r, ch), "normal == rgba_blender_normal on this channel");
    kani::cover!(b.0[3] != 0 && s.0[3] != 0 && o != 0 && s.0[ch] < b.0[ch]);
    kani::cover!(b.0[3] == 0);
}
/// every rustc-inserted check and debug assertion inside normal() (overflow, division by zero, packed-channel range)
#[kani::proof]
fn c03_t_normal_internal_checks() {
    let b = any_color();
    let s = any_color();
    let o: u8 = kani::any();
    let r = normal(b, s, o);
    kani::cover!(b.0[3] != 0 && s.0[3] != 0 && o != 0 && r.0[3] == 255);
}
#[kani::proof]
fn c03_q_normal_alpha() {
    normal_channel(3);
}
#[kani::proof]
fn c03_q_normal_red() {
    normal_channel(0);
}
#[kani::proof]
fn c03_q_normal_green() {
    normal_channel(1);
}
#[kani::proof]
fn c03_q_normal_blue() {
    normal_channel(2);
}

// ------------------------------------------------------------------------------------------------ wrapper lemma
/// RGBA_BLENDER_N(name): the "new layer blending method" wrapper, over whatever `normal` and `merge` are.
pub(crate) fn wrapper_spec(b: Color8, s: Color8, o: u8, s_prime: Color8) -> Color8 {
    if b.0[3] != 0 {
        let nrm = normal(b, s, o);
        let blend = normal(b, s_prime, o);
        let ba = b.0[3];
        let normal_to_blend_merge = merge(nrm, blend, ba);
        let src_total_alpha = R::MUL_UN8(s.0[3] as i32, o as i32);
        let composite_alpha = R::MUL_UN8(ba as i32, src_total_alpha);
        merge(normal_to_blend_merge, blend, composite_alpha as u8)
    } else {
        normal(b, s, o)
    }
}

fn channelwise(b: Color8, s: Color8, k: fn(i32, i32) -> i32) -> Color8 {
    Rgba([
        k(b.0[0] as i32, s.0[0] as i32) as u8,
        k(b.0[1] as i32, s.0[1] as i32) as u8,
        k(b.0[2] as i32, s.0[2] as i32) as u8,
        s.0[3],
    ])
}

macro_rules! wrapper {
    ($name:ident, $mode:ident, $sprime:expr) => {
        #[kani::proof]
        #[kani::unwind(8)]
        #[kani::stub(crate::blend::normal, crate::blend::vk_ref::uf_normal)]
        #[kani::stub(crate::blend::merge, crate::blend::vk_ref::uf_merge)]
        fn $name() {
            let b = any_color();
            let s = any_color();
            let o: u8 = kani::any();
            let r = $mode(b, s, o);
            let f: fn(Color8, Color8) -> Color8 = $sprime;
            let e = wrapper_spec(b, s, o, f(b, s));
            assert!(ceq(r, e), "mode == new-blend wrapper(normal, merge, Aseprite channel function)");
            kani::cover!(b.0[3] != 0);
            kani::cover!(b.0[3] == 0);
        }
    };
}
wrapper!(c03_q_wrap_multiply, multiply, |b, s| channelwise(b, s, R::blend_multiply));
wrapper!(c03_q_wrap_screen, screen, |b, s| channelwise(b, s, R::blend_screen));
wrapper!(c03_q_wrap_overlay, overlay, |b, s| channelwise(b, s, R::blend_overlay));
wrapper!(c03_q_wrap_darken, darken, |b, s| channelwise(b, s, R::blend_darken));
wrapper!(c03_q_wrap_lighten, lighten, |b, s| channelwise(b, s, R::blend_lighten));
wrapper!(c03_q_wrap_color_dodge, color_dodge, |b, s| channelwise(b, s, R::blend_color_dodge));
wrapper!(c03_q_wrap_color_burn, color_burn, |b, s| channelwise(b, s, R::blend_color_burn));
wrapper!(c03_q_wrap_hard_light, hard_light, |b, s| channelwise(b, s, R::blend_hard_light));
wrapper!(c03_q_wrap_difference, difference, |b, s| channelwise(b, s, R::blend_difference));
wrapper!(c03_q_wrap_exclusion, exclusion, |b, s| channelwise(b, s, R::blend_exclusion));
wrapper!(c03_q_wrap_divide, divide, |b, s| channelwise(b, s, R::blend_divide));
// soft light: the channel kernel is an uninterpreted function here (its value is decided against the Aseprite
// table by c03_q_kernel_soft_light_*); this lemma decides the structure around it.
#[kani::proof]
#[kani::unwind(10)]
#[kani::stub(crate::blend::normal, crate::blend::vk_ref::uf_normal)]
#[kani::stub(crate::blend::merge, crate::blend::vk_ref::uf_merge)]
#[kani::stub(crate::blend::blend_soft_light, crate::blend::vk_ref::uf_soft_light_kernel)]
fn c03_q_wrap_soft_light() {
    let b = any_color();
    let s = any_color();
    let o: u8 = kani::any();
    let r = soft_light(b, s, o);
    let e = wrapper_spec(b, s, o, channelwise(b, s, super::blend_soft_light));
    assert!(ceq(r, e), "mode == new-blend wrapper(normal, merge, soft-light channel function)");
    kani::cover!(b.0[3] != 0);
    kani::cover!(b.0[3] == 0);
}
// int r = MIN(rgba_getr(backdrop) + rgba_getr(src), 255) ...
wrapper!(c03_q_wrap_addition, addition, |b, s| channelwise(b, s, |x, y| if x + y < 255 { x + y } else { 255 }));
// int r = MAX(rgba_getr(backdrop) - rgba_getr(src), 0) ...
wrapper!(c03_q_wrap_subtract, subtract, |b, s| channelwise(b, s, |x, y| if x - y > 0 { x - y } else { 0 }));


// ------------------------------------------------------------------------------------------------ HSL structure
// The four non-separable modes: which of (backdrop, source) supplies saturation / luminosity / colour, the order
// set_sat-then-set_lum, the conversion to and from unit floats and the new-blend wrapper -- with the four float
// helpers (saturation, luminosity, set_saturation, set_luminocity) as uninterpreted functions. The helpers
// themselves are compared with the Aseprite formulas by the c03_*_hsl_helper_* harnesses.
fn unit3(c: Color8) -> (f64, f64, f64) {
    (c.0[0] as f64 / 255.0, c.0[1] as f64 / 255.0, c.0[2] as f64 / 255.0)
}
fn pack3(c: (f64, f64, f64), a: u8) -> Color8 {
    Rgba([(255.0 * c.0) as i32 as u8, (255.0 * c.1) as i32 as u8, (255.0 * c.2) as i32 as u8, a])
}
fn hue_src(b: Color8, s: Color8) -> Color8 {
    let (r, g, bl) = unit3(b);
    let sat = saturation(r, g, bl);
    let lum = luminosity(r, g, bl);
    let (r, g, bl) = unit3(s);
    let (r, g, bl) = set_saturation(r, g, bl, sat);
    pack3(set_luminocity(r, g, bl, lum), s.0[3])
}
fn saturation_src(b: Color8, s: Color8) -> Color8 {
    let (r, g, bl) = unit3(s);
    let sat = saturation(r, g, bl);
    let (r, g, bl) = unit3(b);
    let lum = luminosity(r, g, bl);
    let (r, g, bl) = set_saturation(r, g, bl, sat);
    pack3(set_luminocity(r, g, bl, lum), s.0[3])
}
fn color_src(b: Color8, s: Color8) -> Color8 {
    let (r, g, bl) = unit3(b);
    let lum = luminosity(r, g, bl);
    let (r, g, bl) = unit3(s);
    pack3(set_luminocity(r, g, bl, lum), s.0[3])
}
fn luminosity_src(b: Color8, s: Color8) -> Color8 {
    let (r, g, bl) = unit3(s);
    let lum = luminosity(r, g, bl);
    let (r, g, bl) = unit3(b);
    pack3(set_luminocity(r, g, bl, lum), s.0[3])
}
macro_rules! hsl_wrapper {
    ($name:ident, $mode:ident, $sprime:ident) => {
        #[kani::proof]
        #[kani::unwind(8)]
        #[kani::stub(crate::blend::normal, crate::blend::vk_ref::uf_normal)]
        #[kani::stub(crate::blend::merge, crate::blend::vk_ref::uf_merge)]
        #[kani::stub(crate::blend::saturation, crate::blend::vk_ref::uf_saturation)]
        #[kani::stub(crate::blend::luminosity, crate::blend::vk_ref::uf_luminosity)]
        #[kani::stub(crate::blend::set_saturation, crate::blend::vk_ref::uf_set_saturation)]
        #[kani::stub(crate::blend::set_luminocity, crate::blend::vk_ref::uf_set_luminocity)]
        fn $name() {
            let b = any_color();
            let s = any_color();
            let o: u8 = kani::any();
            let r = $mode(b, s, o);
            let e = wrapper_spec(b, s, o, $sprime(b, s));
            assert!(ceq(r, e), "HSL mode == new-blend wrapper(normal, merge, Aseprite HSL recipe over the float helpers)");
            kani::cover!(b.0[3] != 0);
            kani::cover!(b.0[3] == 0);
        }
    };
}
hsl_wrapper!(c03_q_wrap_hsl_hue, hsl_hue, hue_src);
hsl_wrapper!(c03_q_wrap_hsl_saturation, hsl_saturation, saturation_src);
hsl_wrapper!(c03_q_wrap_hsl_color, hsl_color, color_src);
hsl_wrapper!(c03_q_wrap_hsl_luminosity, hsl_luminosity, luminosity_src);

// ------------------------------------------------------------------------------------------------ HSL float helpers
// The float helpers against the Aseprite formulas (vk_ref) on ARBITRARY f64 arguments, as miters of two identical
// IEEE circuits: only `saturation` (comparisons and one subtraction) finishes (37 s); luminosity, set_saturation and
// set_luminocity (multipliers / dividers) did not finish in 25 min each and were removed -- not decided.
fn any_unit() -> f64 {
    // finite, in a range that contains every value the blend pipeline produces (|x| <= 4)
    let x: f64 = kani::any();
    kani::assume(x >= -4.0 && x <= 4.0);
    x
}
#[kani::proof]
fn c03_t_hsl_helper_saturation() {
    let (r, g, b) = (any_unit(), any_unit(), any_unit());
    assert!(saturation(r, g, b).to_bits() == R::sat(r, g, b).to_bits(), "saturation == max - min");
    kani::cover!(r == 1.0 && g == 0.5 && b == 0.25);
}

/// the channel selection of set_saturation -- Aseprite's MIN / MID / MAX lvalue macros including the documented quirk
/// for r == g < b -- over ALL triples of doubles (comparisons only, no arithmetic)
#[kani::proof]
fn c03_q_hsl_sort_selection() {
    let r: f64 = kani::any();
    let g: f64 = kani::any();
    let b: f64 = kani::any();
    kani::assume(!r.is_nan() && !g.is_nan() && !b.is_nan());
    let (a0, a1, a2) = static_sort3_orig(r, g, b);
    let (e0, e1, e2) = R::set_sat_indices(r, g, b);
    assert!(a0 == e0 && a1 == e1 && a2 == e2, "min / mid / max channel selection == Aseprite's macros");
    kani::cover!(r == g && g < b && a1 == a0, "the quirk: min and mid denote the same channel");
    kani::cover!(r > g && g > b);
}

/// concrete witnesses through the whole float helpers (constant-folded by symbolic execution, no solver search): the
/// quirk inputs r == g < b, a grey, both clip_color branches, and the luminosity weights. These are POINT checks --
/// they pin the compatibility flag and the constants, they do not cover the helpers' domain.
#[kani::proof]
#[kani::unwind(12)]
fn c03_q_hsl_concrete_witnesses() {
    const PTS: [(f64, f64, f64, f64); 8] = [
        (0.2, 0.2, 0.8, 0.5),
        (0.0, 0.0, 1.0, 1.0),
        (0.5, 0.5, 0.5, 0.3),
        (1.0, 0.0, 0.0, 0.25),
        (0.1, 0.9, 0.4, 0.75),
        (0.9, 0.1, 0.4, 0.05),
        (0.3, 0.6, 0.6, 0.95),
        (0.7, 0.7, 0.2, 0.6),
    ];
    for k in 0..8 {
        let (r, g, b, x) = PTS[k];
        assert!(luminosity(r, g, b).to_bits() == R::lum(r, g, b).to_bits(), "luminosity weights");
        assert!(saturation(r, g, b).to_bits() == R::sat(r, g, b).to_bits());
        let (p, q, t) = set_saturation(r, g, b, x);
        let mut c = [r, g, b];
        R::set_sat(&mut c, x);
        assert!(p.to_bits() == c[0].to_bits() && q.to_bits() == c[1].to_bits() && t.to_bits() == c[2].to_bits(), "set_saturation at a witness point (incl. the r == g < b quirk)");
        let (p, q, t) = set_luminocity(r, g, b, x);
        let mut c = [r, g, b];
        R::set_lum(&mut c, x);
        assert!(p.to_bits() == c[0].to_bits() && q.to_bits() == c[1].to_bits() && t.to_bits() == c[2].to_bits(), "set_luminocity / clip_color at a witness point");
    }
    kani::cover!(true);
}
