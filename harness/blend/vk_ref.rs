//! Reference model: literal transliteration of Aseprite's src/doc/blend_funcs.cpp (new layer blending
//! method), `int` -> i32, `uint32_t` -> u32, `double` -> f64, `rgba(r,g,b,a)` packing -> `as u8` on each byte.
//! Trusted base of C03. Also: recording uninterpreted-function stubs for `normal` / `merge`.
#![allow(non_snake_case)]
use super::Color8;
use image::Rgba;

// #define MUL_UN8(a, b, t) ((t) = (a) * (uint16_t)(b) + ONE_HALF, ((((t) >> G_SHIFT ) + (t) ) >> G_SHIFT ))
pub(crate) fn MUL_UN8(a: i32, b: i32) -> i32 {
    let t = a * ((b as u16) as i32) + 0x80;
    ((t >> 8) + t) >> 8
}

// #define DIV_UN8(a, b) (((uint16_t) (a) * 0xff + ((b) / 2)) / (b))
pub(crate) fn DIV_UN8(a: u32, b: u32) -> u32 {
    (((a as u16) as u32) * 0xff + (b / 2)) / b
}

pub(crate) fn rgba_pack(r: i32, g: i32, b: i32, a: i32) -> Color8 {
    // rgba(uint8_t r, uint8_t g, uint8_t b, uint8_t a): implicit conversion to uint8_t
    Rgba([r as u8, g as u8, b as u8, a as u8])
}

pub(crate) fn rgba_blender_merge(backdrop: Color8, src: Color8, opacity: i32) -> Color8 {
    let (Br, Bg, Bb, Ba) = (backdrop.0[0] as i32, backdrop.0[1] as i32, backdrop.0[2] as i32, backdrop.0[3] as i32);
    let (Sr, Sg, Sb, Sa) = (src.0[0] as i32, src.0[1] as i32, src.0[2] as i32, src.0[3] as i32);
    let (mut Rr, mut Rg, mut Rb);
    if Ba == 0 {
        Rr = Sr;
        Rg = Sg;
        Rb = Sb;
    } else if Sa == 0 {
        Rr = Br;
        Rg = Bg;
        Rb = Bb;
    } else {
        Rr = Br + MUL_UN8(Sr - Br, opacity);
        Rg = Bg + MUL_UN8(Sg - Bg, opacity);
        Rb = Bb + MUL_UN8(Sb - Bb, opacity);
    }
    let Ra = Ba + MUL_UN8(Sa - Ba, opacity);
    if Ra == 0 {
        Rr = 0;
        Rg = 0;
        Rb = 0;
    }
    rgba_pack(Rr, Rg, Rb, Ra)
}

// separable channel functions -------------------------------------------------------------------
pub(crate) fn blend_multiply(b: i32, s: i32) -> i32 {
    MUL_UN8(b, s)
}
pub(crate) fn blend_screen(b: i32, s: i32) -> i32 {
    b + s - MUL_UN8(b, s)
}
pub(crate) fn blend_hard_light(b: i32, s: i32) -> i32 {
    if s < 128 {
        blend_multiply(b, s << 1)
    } else {
        blend_screen(b, (s << 1) - 255)
    }
}
pub(crate) fn blend_overlay(b: i32, s: i32) -> i32 {
    blend_hard_light(s, b)
}
pub(crate) fn blend_darken(b: i32, s: i32) -> i32 {
    if b < s { b } else { s }
}
pub(crate) fn blend_lighten(b: i32, s: i32) -> i32 {
    if b > s { b } else { s }
}
pub(crate) fn blend_difference(b: i32, s: i32) -> i32 {
    if b - s < 0 { -(b - s) } else { b - s }
}
pub(crate) fn blend_exclusion(b: i32, s: i32) -> i32 {
    let t = MUL_UN8(b, s);
    b + s - 2 * t
}
pub(crate) fn blend_divide(b: i32, s: i32) -> i32 {
    let (b, s) = (b as u32, s as u32);
    (if b == 0 {
        0
    } else if b >= s {
        255
    } else {
        DIV_UN8(b, s)
    }) as i32
}
pub(crate) fn blend_color_dodge(b: i32, s: i32) -> i32 {
    let (b, mut s) = (b as u32, s as u32);
    if b == 0 {
        return 0;
    }
    s = 255 - s;
    (if b >= s { 255 } else { DIV_UN8(b, s) }) as i32
}
pub(crate) fn blend_color_burn(b: i32, s: i32) -> i32 {
    let (mut b, s) = (b as u32, s as u32);
    if b == 255 {
        return 255;
    }
    b = 255 - b;
    (if b >= s { 0 } else { 255 - DIV_UN8(b, s) }) as i32
}
pub(crate) fn blend_soft_light(_b: i32, _s: i32) -> i32 {
    let b: f64 = _b as f64 / 255.0;
    let s: f64 = _s as f64 / 255.0;
    let d = if b <= 0.25 { ((16.0 * b - 12.0) * b + 4.0) * b } else { b.sqrt() };
    let r = if s <= 0.5 { b - (1.0 - 2.0 * s) * b * (1.0 - b) } else { b + (2.0 * s - 1.0) * (d - b) };
    (r * 255.0 + 0.5) as u32 as i32
}

// non-separable ------------------------------------------------------------------------------------
pub(crate) fn lum(r: f64, g: f64, b: f64) -> f64 {
    0.3 * r + 0.59 * g + 0.11 * b
}
pub(crate) fn sat(r: f64, g: f64, b: f64) -> f64 {
    let mx_gb = if g > b { g } else { b };
    let mx = if r > mx_gb { r } else { mx_gb };
    let mn_gb = if g < b { g } else { b };
    let mn = if r < mn_gb { r } else { mn_gb };
    mx - mn
}
pub(crate) fn clip_color(c: &mut [f64; 3]) {
    let (r, g, b) = (c[0], c[1], c[2]);
    let l = lum(r, g, b);
    let mn_gb = if g < b { g } else { b };
    let n = if r < mn_gb { r } else { mn_gb };
    let mx_gb = if g > b { g } else { b };
    let x = if r > mx_gb { r } else { mx_gb };
    if n < 0.0 {
        c[0] = l + (((c[0] - l) * l) / (l - n));
        c[1] = l + (((c[1] - l) * l) / (l - n));
        c[2] = l + (((c[2] - l) * l) / (l - n));
    }
    if x > 1.0 {
        c[0] = l + (((c[0] - l) * (1.0 - l)) / (x - l));
        c[1] = l + (((c[1] - l) * (1.0 - l)) / (x - l));
        c[2] = l + (((c[2] - l) * (1.0 - l)) / (x - l));
    }
}
pub(crate) fn set_lum(c: &mut [f64; 3], l: f64) {
    let d = l - lum(c[0], c[1], c[2]);
    c[0] += d;
    c[1] += d;
    c[2] += d;
    clip_color(c);
}
/// the channel indices that Aseprite's lvalue macros MIN / MID / MAX select in set_sat (0 = r, 1 = g, 2 = b)
pub(crate) fn set_sat_indices(r: f64, g: f64, b: f64) -> (usize, usize, usize) {
    let c = [r, g, b];
    let inner_min = if g < b { 1 } else { 2 };
    let min = if r < c[inner_min] { 0 } else { inner_min };
    let mid = if r > g {
        if g > b { 1 } else if r > b { 2 } else { 0 }
    } else if g > b {
        if b > r { 2 } else { 0 }
    } else {
        1
    };
    let inner_max = if g > b { 1 } else { 2 };
    let max = if r > c[inner_max] { 0 } else { inner_max };
    (min, mid, max)
}

/// set_sat with Aseprite's lvalue macros MIN / MID / MAX (the documented, deliberately reproduced quirk:
/// when r == g < b the three references do not denote three distinct channels).
pub(crate) fn set_sat(c: &mut [f64; 3], s: f64) {
    let (r, g, b) = (c[0], c[1], c[2]);
    // double& min = MIN(r, MIN(g, b));   MIN(x,y) = ((x) < (y)) ? (x) : (y)
    let inner_min = if g < b { 1 } else { 2 };
    let min = if r < c[inner_min] { 0 } else { inner_min };
    // double& mid = MID(r, g, b);
    let mid = if r > g {
        if g > b { 1 } else if r > b { 2 } else { 0 }
    } else if g > b {
        if b > r { 2 } else { 0 }
    } else {
        1
    };
    // double& max = MAX(r, MAX(g, b));   MAX(x,y) = ((x) > (y)) ? (x) : (y)
    let inner_max = if g > b { 1 } else { 2 };
    let max = if r > c[inner_max] { 0 } else { inner_max };
    if c[max] > c[min] {
        c[mid] = ((c[mid] - c[min]) * s) / (c[max] - c[min]);
        c[max] = s;
    } else {
        c[mid] = 0.0;
        c[max] = 0.0;
    }
    c[min] = 0.0;
}
fn unit(c: Color8) -> [f64; 3] {
    [c.0[0] as f64 / 255.0, c.0[1] as f64 / 255.0, c.0[2] as f64 / 255.0]
}
fn pack_f(c: &[f64; 3], a: u8) -> Color8 {
    // rgba(int(255.0*r), int(255.0*g), int(255.0*b), 0) | (src & rgba_a_mask)
    Rgba([(255.0 * c[0]) as i32 as u8, (255.0 * c[1]) as i32 as u8, (255.0 * c[2]) as i32 as u8, a])
}
pub(crate) fn hsl_hue_src(backdrop: Color8, src: Color8) -> Color8 {
    let bk = unit(backdrop);
    let s = sat(bk[0], bk[1], bk[2]);
    let l = lum(bk[0], bk[1], bk[2]);
    let mut c = unit(src);
    set_sat(&mut c, s);
    set_lum(&mut c, l);
    pack_f(&c, src.0[3])
}
pub(crate) fn hsl_saturation_src(backdrop: Color8, src: Color8) -> Color8 {
    let sr = unit(src);
    let s = sat(sr[0], sr[1], sr[2]);
    let mut c = unit(backdrop);
    let l = lum(c[0], c[1], c[2]);
    set_sat(&mut c, s);
    set_lum(&mut c, l);
    pack_f(&c, src.0[3])
}
pub(crate) fn hsl_color_src(backdrop: Color8, src: Color8) -> Color8 {
    let bk = unit(backdrop);
    let l = lum(bk[0], bk[1], bk[2]);
    let mut c = unit(src);
    set_lum(&mut c, l);
    pack_f(&c, src.0[3])
}
pub(crate) fn hsl_luminosity_src(backdrop: Color8, src: Color8) -> Color8 {
    let sr = unit(src);
    let l = lum(sr[0], sr[1], sr[2]);
    let mut c = unit(backdrop);
    set_lum(&mut c, l);
    pack_f(&c, src.0[3])
}

// helpers --------------------------------------------------------------------------------------------
pub(crate) fn ceq(a: Color8, b: Color8) -> bool {
    a.0[0] == b.0[0] && a.0[1] == b.0[1] && a.0[2] == b.0[2] && a.0[3] == b.0[3]
}
pub(crate) fn any_color() -> Color8 {
    let r: u8 = kani::any();
    let g: u8 = kani::any();
    let b: u8 = kani::any();
    let a: u8 = kani::any();
    Rgba([r, g, b, a])
}

// recording uninterpreted-function stubs ------------------------------------------------------------------
const UF_CAP: usize = 6;
static mut UFN_ARGS: [([u8; 4], [u8; 4], u8); UF_CAP] = [([0; 4], [0; 4], 0); UF_CAP];
static mut UFN_RES: [[u8; 4]; UF_CAP] = [[0; 4]; UF_CAP];
static mut UFN_N: usize = 0;
static mut UFM_ARGS: [([u8; 4], [u8; 4], u8); UF_CAP] = [([0; 4], [0; 4], 0); UF_CAP];
static mut UFM_RES: [[u8; 4]; UF_CAP] = [[0; 4]; UF_CAP];
static mut UFM_N: usize = 0;

fn same(a: &([u8; 4], [u8; 4], u8), b: Color8, s: Color8, o: u8) -> bool {
    ceq(Rgba(a.0), b) && ceq(Rgba(a.1), s) && a.2 == o
}

/// `normal` as an uninterpreted function: fresh value for new arguments, recorded value for repeated ones.
pub(crate) fn uf_normal(b: Color8, s: Color8, o: u8) -> Color8 {
    unsafe {
        let mut i = 0;
        while i < UFN_N {
            if same(&UFN_ARGS[i], b, s, o) {
                return Rgba(UFN_RES[i]);
            }
            i += 1;
        }
        assert!(UFN_N < UF_CAP, "UF table capacity");
        let r = any_color();
        UFN_ARGS[UFN_N] = (b.0, s.0, o);
        UFN_RES[UFN_N] = r.0;
        UFN_N += 1;
        r
    }
}
/// `merge` as an uninterpreted function.
pub(crate) fn uf_merge(b: Color8, s: Color8, o: u8) -> Color8 {
    unsafe {
        let mut i = 0;
        while i < UFM_N {
            if same(&UFM_ARGS[i], b, s, o) {
                return Rgba(UFM_RES[i]);
            }
            i += 1;
        }
        assert!(UFM_N < UF_CAP, "UF table capacity");
        let r = any_color();
        UFM_ARGS[UFM_N] = (b.0, s.0, o);
        UFM_RES[UFM_N] = r.0;
        UFM_N += 1;
        r
    }
}
pub(crate) fn uf_normal_calls() -> usize {
    unsafe { UFN_N }
}
pub(crate) fn uf_merge_calls() -> usize {
    unsafe { UFM_N }
}

/// rgba_blender_normal, literal (uses `/`; for native runs and small solver queries).
pub(crate) fn rgba_blender_normal(backdrop: Color8, src: Color8, opacity: i32) -> Color8 {
    if backdrop.0[3] == 0 {
        let mut a = src.0[3] as i32;
        a = MUL_UN8(a, opacity);
        return Rgba([src.0[0], src.0[1], src.0[2], a as u8]);
    } else if src.0[3] == 0 {
        return backdrop;
    }
    let (Br, Bg, Bb, Ba) = (backdrop.0[0] as i32, backdrop.0[1] as i32, backdrop.0[2] as i32, backdrop.0[3] as i32);
    let (Sr, Sg, Sb) = (src.0[0] as i32, src.0[1] as i32, src.0[2] as i32);
    let mut Sa = src.0[3] as i32;
    Sa = MUL_UN8(Sa, opacity);
    let Ra = Sa + Ba - MUL_UN8(Ba, Sa);
    let Rr = Br + (Sr - Br) * Sa / Ra;
    let Rg = Bg + (Sg - Bg) * Sa / Ra;
    let Rb = Bb + (Sb - Bb) * Sa / Ra;
    rgba_pack(Rr, Rg, Rb, Ra)
}

/// C-style truncating division written as its defining relation: `q == t / d` for d > 0
/// iff t - q*d = rem with 0 <= rem < d (t >= 0) or -d < rem <= 0 (t < 0). No division circuit.
pub(crate) fn is_trunc_quotient(t: i32, d: i32, q: i32) -> bool {
    let rem = t - q * d;
    if t >= 0 {
        0 <= rem && rem < d
    } else {
        -d < rem && rem <= 0
    }
}

/// `res` is what rgba_blender_normal returns for (backdrop, src, opacity); channel `ch` (0..3) or alpha (3) only.
pub(crate) fn normal_channel_matches(backdrop: Color8, src: Color8, opacity: i32, res: Color8, ch: usize) -> bool {
    if backdrop.0[3] == 0 {
        let a = MUL_UN8(src.0[3] as i32, opacity);
        return if ch == 3 { res.0[3] == a as u8 } else { res.0[ch] == src.0[ch] };
    } else if src.0[3] == 0 {
        return res.0[ch] == backdrop.0[ch];
    }
    let Ba = backdrop.0[3] as i32;
    let Sa = MUL_UN8(src.0[3] as i32, opacity);
    let Ra = Sa + Ba - MUL_UN8(Ba, Sa);
    if ch == 3 {
        return 0 < Ra && Ra <= 255 && res.0[3] as i32 == Ra;
    }
    let Bc = backdrop.0[ch] as i32;
    let Sc = src.0[ch] as i32;
    let q = res.0[ch] as i32 - Bc;
    Ra > 0 && is_trunc_quotient((Sc - Bc) * Sa, Ra, q)
}

// uninterpreted float helpers (HSL structure lemmas) and soft-light kernel ------------------------------------
const FCAP: usize = 4;
static mut F3_ARGS: [[[u64; 3]; FCAP]; 2] = [[[0; 3]; FCAP]; 2];
static mut F3_RES: [[f64; FCAP]; 2] = [[0.0; FCAP]; 2];
static mut F3_N: [usize; 2] = [0; 2];
fn uf3(which: usize, r: f64, g: f64, b: f64) -> f64 {
    unsafe {
        let key = [r.to_bits(), g.to_bits(), b.to_bits()];
        let mut i = 0;
        while i < F3_N[which] {
            let k = F3_ARGS[which][i];
            if k[0] == key[0] && k[1] == key[1] && k[2] == key[2] {
                return F3_RES[which][i];
            }
            i += 1;
        }
        assert!(F3_N[which] < FCAP, "UF table capacity");
        let v: f64 = kani::any();
        F3_ARGS[which][F3_N[which]] = key;
        F3_RES[which][F3_N[which]] = v;
        F3_N[which] += 1;
        v
    }
}
pub(crate) fn uf_saturation(r: f64, g: f64, b: f64) -> f64 {
    uf3(0, r, g, b)
}
pub(crate) fn uf_luminosity(r: f64, g: f64, b: f64) -> f64 {
    uf3(1, r, g, b)
}
static mut F4_ARGS: [[[u64; 4]; FCAP]; 2] = [[[0; 4]; FCAP]; 2];
static mut F4_RES: [[[f64; 3]; FCAP]; 2] = [[[0.0; 3]; FCAP]; 2];
static mut F4_N: [usize; 2] = [0; 2];
fn uf4(which: usize, r: f64, g: f64, b: f64, x: f64) -> (f64, f64, f64) {
    unsafe {
        let key = [r.to_bits(), g.to_bits(), b.to_bits(), x.to_bits()];
        let mut i = 0;
        while i < F4_N[which] {
            let k = F4_ARGS[which][i];
            if k[0] == key[0] && k[1] == key[1] && k[2] == key[2] && k[3] == key[3] {
                let v = F4_RES[which][i];
                return (v[0], v[1], v[2]);
            }
            i += 1;
        }
        assert!(F4_N[which] < FCAP, "UF table capacity");
        let v: [f64; 3] = [kani::any(), kani::any(), kani::any()];
        F4_ARGS[which][F4_N[which]] = key;
        F4_RES[which][F4_N[which]] = v;
        F4_N[which] += 1;
        (v[0], v[1], v[2])
    }
}
pub(crate) fn uf_set_saturation(r: f64, g: f64, b: f64, sat: f64) -> (f64, f64, f64) {
    uf4(0, r, g, b, sat)
}
pub(crate) fn uf_set_luminocity(r: f64, g: f64, b: f64, lum: f64) -> (f64, f64, f64) {
    uf4(1, r, g, b, lum)
}

const KCAP: usize = 8;
static mut K_ARGS: [(i32, i32); KCAP] = [(0, 0); KCAP];
static mut K_RES: [i32; KCAP] = [0; KCAP];
static mut K_N: usize = 0;
/// soft-light channel kernel as an uninterpreted function with range 0..=255 (range and value are decided
/// separately by the c03_q_kernel_soft_light_* harnesses)
pub(crate) fn uf_soft_light_kernel(b: i32, s: i32) -> i32 {
    unsafe {
        let mut i = 0;
        while i < K_N {
            if K_ARGS[i].0 == b && K_ARGS[i].1 == s {
                return K_RES[i];
            }
            i += 1;
        }
        assert!(K_N < KCAP, "UF table capacity");
        let v: u8 = kani::any();
        K_ARGS[K_N] = (b, s);
        K_RES[K_N] = v as i32;
        K_N += 1;
        v as i32
    }
}
