//! Constructors for private-field tile types.
use super::*;

pub(crate) fn mk_tile(id: u32) -> Tile {
    Tile { id: TileId(id), flip_x: false, flip_y: false, rotate_90cw: false }
}
pub(crate) fn mk_tiles(v: Vec<Tile>) -> Tiles {
    Tiles(v)
}
pub(crate) fn tiles_len(t: &Tiles) -> usize {
    t.0.len()
}
