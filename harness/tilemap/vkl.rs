//! Constructors / accessors for private-field tilemap types.
use super::*;
use crate::tile::vkl::*;

pub(crate) fn mk_tilemap_data(width: u16, height: u16, ids: &[u32]) -> TilemapData {
    let mut v = Vec::with_capacity(ids.len());
    for i in ids {
        v.push(mk_tile(*i));
    }
    TilemapData {
        width,
        height,
        tiles: mk_tiles(v),
        bits_per_tile: 32,
        bitmask_header: TileBitmaskHeader { tile_id: 0x1fff_ffff, x_flip: 0x2000_0000, y_flip: 0x4000_0000, rotate_90cw: 0x8000_0000 },
    }
}
pub(crate) fn stored_tiles(t: &TilemapData) -> usize {
    tiles_len(&t.tiles)
}
