//! Constructors for private-field palette types.
use super::*;

pub(crate) fn mk_entry(id: u32, rgba8: [u8; 4]) -> ColorPaletteEntry {
    ColorPaletteEntry { id, rgba8, name: None }
}
pub(crate) fn mk_palette(entries: &[(u32, [u8; 4])]) -> ColorPalette {
    let mut m = IntMap::default();
    for (id, c) in entries {
        m.insert(*id, mk_entry(*id, *c));
    }
    ColorPalette { entries: m }
}
