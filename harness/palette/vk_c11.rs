//! C11 — palettes decode correctly and indexed files need a complete palette.
//! Hash-map keys (palette indices) are concrete per harness -- symbolic keys make hashbrown's probing explode --
//! colours, flags and names are symbolic.
use super::vkl::*;
use super::*;
use crate::pixel::RawPixels;
use crate::vklib::*;
use crate::PixelFormat;

/// new-format chunk: entries first..=first+1, second entry carries a one-byte name
fn new_palette(first: u32) {
    new_palette_with(first, 1);
}
/// `named_flags`: the flag word of entry 1 (bit 0 = has name; concrete, it decides how many bytes the entry takes)
fn new_palette_with(first: u32, named_flags: u16) {
    // 4 total, 4 first, 4 last, 8 reserved | e0: 2 flags + 4 rgba | e1: 2 flags(=1) + 4 rgba + name(2+1)
    let mut buf: [u8; 35] = kani::any();
    let last = first + 1;
    for i in 0..4 {
        buf[4 + i] = (first >> (8 * i)) as u8;
        buf[8 + i] = (last >> (8 * i)) as u8;
    }
    // the name flag decides how many bytes an entry takes, so the flag words are concrete (R10): entry 0 carries
    // every other flag bit and no name, entry 1 only the name bit
    buf[20] = 0xfe;
    buf[21] = 0xff;
    buf[26] = named_flags as u8;
    buf[27] = (named_flags >> 8) as u8;
    buf[32] = 1;
    buf[33] = 0;
    kani::assume(buf[34] < 0x80);
    let p = match parse_chunk(&buf) {
        Ok(p) => p,
        Err(e) => {
            core::mem::forget(e);
            assert!(false, "well-formed palette chunk decodes");
            return;
        }
    };
    assert!(p.num_colors() == 2, "one entry per index in the stored range");
    let e0 = p.color(first).unwrap();
    let e1 = p.color(last).unwrap();
    assert!(e0.id() == first && e1.id() == last, "entry ids");
    assert!(e0.raw_rgba8() == [buf[22], buf[23], buf[24], buf[25]], "stored RGBA of entry 0");
    assert!(e1.red() == buf[28] && e1.green() == buf[29] && e1.blue() == buf[30] && e1.alpha() == buf[31], "stored RGBA of entry 1");
    assert!(e0.name().is_none(), "no name unless flagged");
    assert!(e1.name().map(|n| n.len() == 1 && n.as_bytes()[0] == buf[34]).unwrap_or(false), "optional name");
    assert!(p.color(last + 1).is_none() && (first == 0 || p.color(first - 1).is_none()), "nothing outside the stored range");
    kani::cover!(e1.alpha() == 0 && e0.alpha() == 128);
    core::mem::forget(p);
}
#[kani::proof]
#[kani::unwind(8)]
#[kani::stub(alloc::fmt::format, crate::vklib::empty_format)]
#[kani::stub(std::collections::HashMap::insert, crate::vklib::hm_insert)]
#[kani::stub(std::collections::HashMap::with_hasher, crate::vklib::hm_with_hasher)]
#[kani::stub(crate::palette::ColorPalette::color, crate::vklib::side_color)]
#[kani::stub(std::collections::HashMap::len, crate::vklib::hm_len)]
fn c11_q_new_palette_from_0() {
    new_palette(0);
}
#[kani::proof]
#[kani::unwind(8)]
#[kani::stub(alloc::fmt::format, crate::vklib::empty_format)]
#[kani::stub(std::collections::HashMap::insert, crate::vklib::hm_insert)]
#[kani::stub(std::collections::HashMap::with_hasher, crate::vklib::hm_with_hasher)]
#[kani::stub(crate::palette::ColorPalette::color, crate::vklib::side_color)]
#[kani::stub(std::collections::HashMap::len, crate::vklib::hm_len)]
fn c11_t_new_palette_from_254() {
    new_palette(254);
}
/// the name flag is bit 0 of the flag word: an entry with other flag bits set as well still carries its name
#[kani::proof]
#[kani::unwind(8)]
#[kani::stub(alloc::fmt::format, crate::vklib::empty_format)]
#[kani::stub(std::collections::HashMap::insert, crate::vklib::hm_insert)]
#[kani::stub(std::collections::HashMap::with_hasher, crate::vklib::hm_with_hasher)]
#[kani::stub(crate::palette::ColorPalette::color, crate::vklib::side_color)]
#[kani::stub(std::collections::HashMap::len, crate::vklib::hm_len)]
fn c11_q_new_palette_named_entry_with_other_flag_bits() {
    new_palette_with(0, 0x8003);
}

/// last < first is an error value
#[kani::proof]
#[kani::unwind(4)]
#[kani::stub(alloc::fmt::format, crate::vklib::empty_format)]
#[kani::stub(std::collections::HashMap::insert, crate::vklib::hm_insert)]
#[kani::stub(std::collections::HashMap::with_hasher, crate::vklib::hm_with_hasher)]
#[kani::stub(crate::palette::ColorPalette::color, crate::vklib::side_color)]
#[kani::stub(std::collections::HashMap::len, crate::vklib::hm_len)]
fn c11_q_new_palette_bad_range() {
    let buf: [u8; 26] = kani::any();
    let first = rd32(&buf, 4);
    let last = rd32(&buf, 8);
    kani::assume(last < first);
    let r = parse_chunk(&buf);
    assert!(r.is_err(), "last < first is rejected");
    kani::cover!(first == 1 && last == 0);
    core::mem::forget(r);
}

/// 6-bit scaling: 0 -> 0, 63 -> 255, strictly monotone, >= 64 rejected
#[kani::proof]
#[kani::stub(alloc::fmt::format, crate::vklib::empty_format)]
#[kani::stub(std::collections::HashMap::insert, crate::vklib::hm_insert)]
#[kani::stub(std::collections::HashMap::with_hasher, crate::vklib::hm_with_hasher)]
#[kani::stub(crate::palette::ColorPalette::color, crate::vklib::side_color)]
#[kani::stub(std::collections::HashMap::len, crate::vklib::hm_len)]
fn c11_q_scale_6bit() {
    let a: u8 = kani::any();
    let b: u8 = kani::any();
    let ra = scale_6bit_to_8bit(a);
    let rb = scale_6bit_to_8bit(b);
    assert!(ra.is_ok() == (a < 64), "components 0..63 accepted, others rejected");
    if let (Ok(x), Ok(y)) = (&ra, &rb) {
        if a == 0 {
            assert!(*x == 0);
        }
        if a == 63 {
            assert!(*x == 255);
        }
        if a < b {
            assert!(*x < *y, "strictly monotone");
        }
    }
    kani::cover!(a == 31 && b == 32);
    core::mem::forget(ra);
    core::mem::forget(rb);
}

/// legacy chunks: two packets (skip s0, 2 colours) (skip s1, 1 colour): opaque entries at the cumulative offsets
fn legacy(kind11: bool, s0: u8, s1: u8) {
    // 2 packets | s0, 2, rgb rgb | s1, 1, rgb
    let mut buf: [u8; 15] = kani::any();
    buf[0] = 2;
    buf[1] = 0;
    buf[2] = s0;
    buf[3] = 2;
    buf[10] = s1;
    buf[11] = 1;
    let r = if kind11 { parse_old_chunk_11(&buf) } else { parse_old_chunk_04(&buf) };
    let comps = [buf[4], buf[5], buf[6], buf[7], buf[8], buf[9], buf[12], buf[13], buf[14]];
    let mut all6 = true;
    for c in comps {
        if c >= 64 {
            all6 = false;
        }
    }
    let p = match r {
        Ok(p) => p,
        Err(e) => {
            core::mem::forget(e);
            assert!(kind11 && !all6, "only an out-of-range 6-bit component can fail");
            return;
        }
    };
    assert!(!kind11 || all6, "0x0011 components >= 64 are rejected");
    let sc = |c: u8| if kind11 { (c << 2) | (c >> 4) } else { c };
    let base0 = s0 as u32;
    let base1 = s0 as u32 + s1 as u32;
    // the second packet may overwrite an index of the first
    let e = p.color(base0).unwrap();
    if base1 != base0 {
        assert!(e.raw_rgba8() == [sc(buf[4]), sc(buf[5]), sc(buf[6]), 255], "packet 1 entry 0: opaque, at the skip offset");
    }
    let e = p.color(base0 + 1).unwrap();
    if base1 != base0 + 1 {
        assert!(e.raw_rgba8() == [sc(buf[7]), sc(buf[8]), sc(buf[9]), 255], "packet 1 entry 1");
    }
    let e = p.color(base1).unwrap();
    assert!(e.raw_rgba8() == [sc(buf[12]), sc(buf[13]), sc(buf[14]), 255] && e.id() == base1 && e.name().is_none(),
        "packet 2 entry at the cumulative skip offset");
    let distinct = if base1 == base0 || base1 == base0 + 1 { 2 } else { 3 };
    assert!(p.num_colors() == distinct);
    kani::cover!(true);
    core::mem::forget(p);
}
#[kani::proof]
#[kani::unwind(11)]
#[kani::stub(alloc::fmt::format, crate::vklib::empty_format)]
#[kani::stub(std::collections::HashMap::insert, crate::vklib::hm_insert)]
#[kani::stub(std::collections::HashMap::with_hasher, crate::vklib::hm_with_hasher)]
#[kani::stub(crate::palette::ColorPalette::color, crate::vklib::side_color)]
#[kani::stub(std::collections::HashMap::len, crate::vklib::hm_len)]
fn c11_q_legacy_04_skip_0_3() {
    legacy(false, 0, 3);
}
#[kani::proof]
#[kani::unwind(11)]
#[kani::stub(alloc::fmt::format, crate::vklib::empty_format)]
#[kani::stub(std::collections::HashMap::insert, crate::vklib::hm_insert)]
#[kani::stub(std::collections::HashMap::with_hasher, crate::vklib::hm_with_hasher)]
#[kani::stub(crate::palette::ColorPalette::color, crate::vklib::side_color)]
#[kani::stub(std::collections::HashMap::len, crate::vklib::hm_len)]
fn c11_q_legacy_04_skip_200_100() {
    legacy(false, 200, 100);
}
#[kani::proof]
#[kani::unwind(11)]
#[kani::stub(alloc::fmt::format, crate::vklib::empty_format)]
#[kani::stub(std::collections::HashMap::insert, crate::vklib::hm_insert)]
#[kani::stub(std::collections::HashMap::with_hasher, crate::vklib::hm_with_hasher)]
#[kani::stub(crate::palette::ColorPalette::color, crate::vklib::side_color)]
#[kani::stub(std::collections::HashMap::len, crate::vklib::hm_len)]
fn c11_t_legacy_04_overlapping() {
    legacy(false, 2, 1);
}
#[kani::proof]
#[kani::unwind(11)]
#[kani::stub(alloc::fmt::format, crate::vklib::empty_format)]
#[kani::stub(std::collections::HashMap::insert, crate::vklib::hm_insert)]
#[kani::stub(std::collections::HashMap::with_hasher, crate::vklib::hm_with_hasher)]
#[kani::stub(crate::palette::ColorPalette::color, crate::vklib::side_color)]
#[kani::stub(std::collections::HashMap::len, crate::vklib::hm_len)]
fn c11_t_legacy_11_skip_0_0() {
    legacy(true, 0, 0);
}

/// count byte 0 means 256 entries: a packet that declares 256 colours but carries one is short input (an error
/// value), at skip 0 and at a non-zero skip alike -- it is never an empty or one-colour palette
fn legacy_count_zero(kind11: bool, skip: u8) {
    let mut buf: [u8; 7] = kani::any();
    buf[0] = 1;
    buf[1] = 0;
    buf[2] = skip;
    buf[3] = 0;
    kani::assume(buf[4] < 64 && buf[5] < 64 && buf[6] < 64);
    let r = if kind11 { parse_old_chunk_11(&buf) } else { parse_old_chunk_04(&buf) };
    assert!(r.is_err(), "count byte 0 declares 256 entries; one entry's worth of bytes is a short read");
    kani::cover!(true);
    core::mem::forget(r);
}
#[kani::proof]
#[kani::unwind(5)]
#[kani::stub(alloc::fmt::format, crate::vklib::empty_format)]
#[kani::stub(std::collections::HashMap::insert, crate::vklib::hm_insert)]
#[kani::stub(std::collections::HashMap::with_hasher, crate::vklib::hm_with_hasher)]
#[kani::stub(crate::palette::ColorPalette::color, crate::vklib::side_color)]
#[kani::stub(std::collections::HashMap::len, crate::vklib::hm_len)]
fn c11_q_legacy_04_count_zero_at_skip_2() {
    legacy_count_zero(false, 2);
}
#[kani::proof]
#[kani::unwind(5)]
#[kani::stub(alloc::fmt::format, crate::vklib::empty_format)]
#[kani::stub(std::collections::HashMap::insert, crate::vklib::hm_insert)]
#[kani::stub(std::collections::HashMap::with_hasher, crate::vklib::hm_with_hasher)]
#[kani::stub(crate::palette::ColorPalette::color, crate::vklib::side_color)]
#[kani::stub(std::collections::HashMap::len, crate::vklib::hm_len)]
fn c11_q_legacy_11_count_zero_at_skip_2() {
    legacy_count_zero(true, 2);
}
#[kani::proof]
#[kani::unwind(5)]
#[kani::stub(alloc::fmt::format, crate::vklib::empty_format)]
#[kani::stub(std::collections::HashMap::insert, crate::vklib::hm_insert)]
#[kani::stub(std::collections::HashMap::with_hasher, crate::vklib::hm_with_hasher)]
#[kani::stub(crate::palette::ColorPalette::color, crate::vklib::side_color)]
#[kani::stub(std::collections::HashMap::len, crate::vklib::hm_len)]
fn c11_t_legacy_04_count_zero_at_skip_0() {
    legacy_count_zero(false, 0);
}

/// indexed pixels against a sparse palette {0, 2, 5}: validation succeeds iff every index is a palette key; no
/// palette at all is an error
#[kani::proof]
#[kani::unwind(6)]
#[kani::stub(alloc::fmt::format, crate::vklib::empty_format)]
#[kani::stub(std::collections::HashMap::insert, crate::vklib::hm_insert)]
#[kani::stub(std::collections::HashMap::with_hasher, crate::vklib::hm_with_hasher)]
#[kani::stub(crate::palette::ColorPalette::color, crate::vklib::side_color)]
#[kani::stub(std::collections::HashMap::len, crate::vklib::hm_len)]
fn c11_q_indexed_pixels_need_palette_entries() {
    let px: [u8; 2] = kani::any();
    let tci: u8 = kani::any();
    let bg: bool = kani::any();
    let fmt = PixelFormat::Indexed { transparent_color_index: tci };
    let with: bool = kani::any();
    let pal = if with {
        Some(std::sync::Arc::new(mk_palette(&[(0, kani::any()), (2, kani::any()), (5, kani::any())])))
    } else {
        None
    };
    let r = RawPixels::Indexed(vec![px[0], px[1]]).validate(pal, &fmt, bg);
    let is_key = |i: u8| i == 0 || i == 2 || i == 5;
    assert!(r.is_ok() == (with && is_key(px[0]) && is_key(px[1])), "loads iff a palette exists and every pixel index is in it");
    kani::cover!(with && px[0] == 5 && px[1] == 1);
    kani::cover!(with && r.is_ok());
    kani::cover!(!with);
    core::mem::forget(r);
}
