//! C06 (cel chunk part): layer index, signed offset, opacity, cel type dispatch, size; background flag capture.
use super::vkl::*;
use super::*;
use crate::layer::vkl::*;
use crate::layer::LayersData;
use crate::{BlendMode, LayerType, TilesetsById};
use crate::vklib::*;

fn cel_header(ty: u16) {
    let mut buf: [u8; 24] = kani::any();
    buf[7] = ty as u8;
    buf[8] = 0;
    buf[16] = 1; // 1x1 for raw / compressed; linked frame low byte for type 1 is overwritten below
    buf[17] = 0;
    buf[18] = 1;
    buf[19] = 0;
    let link: u16 = kani::any();
    if ty == 1 {
        buf[16] = link as u8;
        buf[17] = (link >> 8) as u8;
    }
    let c = match parse_chunk(&buf, PixelFormat::Rgba) {
        Ok(c) => c,
        Err(e) => {
            core::mem::forget(e);
            assert!(false, "well-formed cel chunk decodes");
            return;
        }
    };
    assert!(c.data.layer_index == rd16(&buf, 0), "layer index");
    assert!(c.data.x == rd16(&buf, 2) as i16 && c.data.y == rd16(&buf, 4) as i16, "signed offset");
    assert!(c.data.opacity == buf[6], "cel opacity");
    assert!(c.user_data.is_none());
    match &c.content {
        CelContent::Raw(ic) => {
            assert!(ty == 0 || ty == 2, "raw / compressed image cel");
            assert!(ic.size.width == 1 && ic.size.height == 1, "stored size");
            match &ic.pixels {
                RawPixels::Rgba(v) => assert!(v.len() == 1 && v[0].0[0] == buf[20] && v[0].0[3] == buf[23], "pixel payload"),
                _ => assert!(false),
            }
        }
        CelContent::Linked(f) => assert!(ty == 1 && *f == link, "linked frame number"),
        CelContent::Tilemap(_) => assert!(false),
    }
    kani::cover!(c.data.x == i16::MIN && c.data.y == i16::MAX);
    core::mem::forget(c);
}
#[kani::proof]
#[kani::unwind(8)]
#[kani::stub(alloc::fmt::format, crate::vklib::empty_format)]
#[kani::stub(crate::reader::AseReader::unzip, crate::vklib::stub_unzip_identity)]
fn c06_q_cel_chunk_raw() {
    cel_header(0);
}
#[kani::proof]
#[kani::unwind(8)]
#[kani::stub(alloc::fmt::format, crate::vklib::empty_format)]
#[kani::stub(crate::reader::AseReader::unzip, crate::vklib::stub_unzip_identity)]
fn c06_q_cel_chunk_linked() {
    cel_header(1);
}
#[kani::proof]
#[kani::unwind(8)]
#[kani::stub(alloc::fmt::format, crate::vklib::empty_format)]
#[kani::stub(crate::reader::AseReader::unzip, crate::vklib::stub_unzip_identity)]
fn c06_q_cel_chunk_compressed() {
    cel_header(2);
}

/// validation captures the layer's BACKGROUND flag into the indexed pixel container
#[kani::proof]
#[kani::unwind(6)]
#[kani::stub(alloc::fmt::format, crate::vklib::empty_format)]
#[kani::stub(crate::palette::ColorPalette::color, crate::vklib::stub_color_some)]
#[kani::stub(std::hash::RandomState::new, crate::vklib::fixed_random_state)]
fn c06_q_background_flag_captured() {
    let flags: u16 = kani::any();
    let layers = LayersData::from_vec(vec![mk_layer(flags as u32, 0, BlendMode::Normal, 255, LayerType::Image)]).unwrap();
    let tci: u8 = kani::any();
    let fmt = PixelFormat::Indexed { transparent_color_index: tci };
    let pal = std::sync::Arc::new(crate::palette::vkl::mk_palette(&[]));
    let cel = RawCel {
        data: CelCommon { layer_index: 0, x: 0, y: 0, opacity: 255 },
        content: CelContent::Raw(ImageContent { size: ImageSize { width: 1, height: 1 }, pixels: RawPixels::Indexed(vec![kani::any()]) }),
        user_data: None,
    };
    let r = cel.validate(CelId { frame: 0, layer: 0 }, &layers, &TilesetsById::new(), &fmt, Some(pal), &|_| Ok(()));
    match &r {
        Ok(RawCel { content: CelContent::Raw(ImageContent { pixels: Pixels::Indexed { layer_is_background, transparent_color_index, .. }, .. }), .. }) => {
            assert!(*layer_is_background == (flags & 8 != 0), "background flag of the cel's layer");
            assert!(*transparent_color_index == tci, "file transparent index");
        }
        _ => assert!(false, "indexed cel validates"),
    }
    kani::cover!(flags & 8 != 0);
    kani::cover!(flags & 8 == 0 && flags & 4 != 0);
    core::mem::forget(r);
    core::mem::forget(layers);
}
