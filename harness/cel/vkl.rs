//! Constructors for private-field cel types.
use super::*;

/// Build the cel table directly (no add_cel, so no drop glue of replaced entries is explored).
pub(crate) fn mk_cels<P>(data: Vec<Vec<Option<RawCel<P>>>>) -> CelsData<P> {
    let num_frames = data.len() as u32;
    CelsData { data, num_frames }
}

pub(crate) fn raw_cel_1px(layer: u16, x: i16, y: i16, opacity: u8, px: image::Rgba<u8>) -> RawCel<Pixels> {
    RawCel {
        data: CelCommon { layer_index: layer, x, y, opacity },
        content: CelContent::Raw(ImageContent { size: ImageSize { width: 1, height: 1 }, pixels: Pixels::Rgba(vec![px]) }),
        user_data: None,
    }
}

pub(crate) fn linked_cel(layer: u16, x: i16, y: i16, opacity: u8, to_frame: u16) -> RawCel<Pixels> {
    RawCel { data: CelCommon { layer_index: layer, x, y, opacity }, content: CelContent::Linked(to_frame), user_data: None }
}

pub(crate) fn table_of<P>(c: &CelsData<P>) -> &Vec<Vec<Option<RawCel<P>>>> {
    &c.data
}
