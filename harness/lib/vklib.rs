//! Shared helpers for the Kani proof harnesses (overlaid into a scratch copy of the crate; never part of /repo).
use crate::*;

/// Stub for `std::hash::RandomState::new`: fixed SipHash keys. The keys only influence hash-map
/// iteration order, which the API documents as arbitrary. (The real one loops in getrandom under CBMC.)
pub(crate) fn fixed_random_state() -> std::hash::RandomState {
    // RandomState is { k0: u64, k1: u64 }
    unsafe { core::mem::transmute::<(u64, u64), std::hash::RandomState>((0x0123_4567_89ab_cdef, 0x0f1e_2d3c_4b5a_6978)) }
}

/// Stub for `alloc::fmt::format`: error-message text is not the subject of any property.
pub(crate) fn empty_format(_args: core::fmt::Arguments<'_>) -> String {
    String::new()
}

/// Build a sprite value directly (skipping the parser) from already validated parts.
pub(crate) fn mk_file(
    width: u16,
    height: u16,
    num_frames: u16,
    pixel_format: PixelFormat,
    layers: layer::LayersData,
    framedata: cel::CelsData<pixel::Pixels>,
    tilesets: TilesetsById,
    tags: Vec<Tag>,
) -> AsepriteFile {
    AsepriteFile {
        width,
        height,
        num_frames,
        pixel_format,
        palette: None,
        layers,
        frame_times: vec![100; num_frames as usize],
        tags,
        framedata,
        external_files: ExternalFilesById::new(),
        tilesets,
        sprite_user_data: None,
        slices: Vec::new(),
    }
}

/// Reference 8-bit rounded product round(a*b/255) (exact integer formulation, no shifts).
pub(crate) fn mul8_ref(a: u8, b: u8) -> u8 {
    let p = a as u32 * b as u32;
    // round-half-up of p/255
    ((2 * p + 255) / 510) as u8
}
