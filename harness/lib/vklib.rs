//! Shared helpers for the Kani proof harnesses (overlaid into a scratch copy of the crate; never part of /repo).
use crate::*;

/// Stub for `std::hash::RandomState::new`: fixed SipHash keys. The keys only influence hash-map
/// iteration order, which the API documents as arbitrary. (The real one loops in getrandom under CBMC.)
pub(crate) fn fixed_random_state() -> std::hash::RandomState {
    // RandomState is { k0: u64, k1: u64 }
    unsafe { core::mem::transmute::<(u64, u64), std::hash::RandomState>((0x0123_4567_89ab_cdef, 0x0f1e_2d3c_4b5a_6978)) }
}

/// Stub for `alloc::fmt::format`: error-message text is not the subject of any property.
pub(crate) fn empty_format(_args: core::fmt::Arguments<'_>) -> String {
    String::new()
}

/// Build a sprite value directly (skipping the parser) from already validated parts.
pub(crate) fn mk_file(
    width: u16,
    height: u16,
    num_frames: u16,
    pixel_format: PixelFormat,
    layers: layer::LayersData,
    framedata: cel::CelsData<pixel::Pixels>,
    tilesets: TilesetsById,
    tags: Vec<Tag>,
) -> AsepriteFile {
    AsepriteFile {
        width,
        height,
        num_frames,
        pixel_format,
        palette: None,
        layers,
        frame_times: vec![100; num_frames as usize],
        tags,
        framedata,
        external_files: ExternalFilesById::new(),
        tilesets,
        sprite_user_data: None,
        slices: Vec::new(),
    }
}

/// Reference 8-bit rounded product round(a*b/255) (exact integer formulation, no shifts).
pub(crate) fn mul8_ref(a: u8, b: u8) -> u8 {
    let p = a as u32 * b as u32;
    // round-half-up of p/255
    ((2 * p + 255) / 510) as u8
}

// ---------------------------------------------------------------------------------------------------------
// Blend dispatch as an uninterpreted function. Kani 0.68 cannot compile `file::blend_mode_to_blend_fn`
// (internal compiler error on `Box::new(<fn item>)`), so every harness that reaches rendering replaces it by
// `uf_blend_fn`; structural results then hold for whatever the 19 functions compute (their arithmetic is C03).
use crate::blend::Color8;
use image::Rgba;

pub(crate) const UFB_CAP: usize = 12;
static mut UFB_ARGS: [(u8, [u8; 4], [u8; 4], u8); UFB_CAP] = [(0, [0; 4], [0; 4], 0); UFB_CAP];
static mut UFB_RES: [[u8; 4]; UFB_CAP] = [[0; 4]; UFB_CAP];
static mut UFB_N: usize = 0;

pub(crate) fn px_eq(a: &Rgba<u8>, b: &Rgba<u8>) -> bool {
    a.0[0] == b.0[0] && a.0[1] == b.0[1] && a.0[2] == b.0[2] && a.0[3] == b.0[3]
}
/// the repository's own image comparison: fully transparent pixels compare equal regardless of RGB
pub(crate) fn px_equiv(a: &Rgba<u8>, b: &Rgba<u8>) -> bool {
    (a.0[3] == 0 && b.0[3] == 0) || px_eq(a, b)
}

pub(crate) fn uf_blend(mode: BlendMode, b: Color8, s: Color8, o: u8) -> Color8 {
    let m = mode as u8;
    unsafe {
        let mut i = 0;
        while i < UFB_N {
            let k = &UFB_ARGS[i];
            if k.0 == m && k.1[0] == b.0[0] && k.1[1] == b.0[1] && k.1[2] == b.0[2] && k.1[3] == b.0[3]
                && k.2[0] == s.0[0] && k.2[1] == s.0[1] && k.2[2] == s.0[2] && k.2[3] == s.0[3] && k.3 == o
            {
                return Rgba(UFB_RES[i]);
            }
            i += 1;
        }
        assert!(UFB_N < UFB_CAP, "UF blend table capacity");
        let r: [u8; 4] = [kani::any(), kani::any(), kani::any(), kani::any()];
        UFB_ARGS[UFB_N] = (m, b.0, s.0, o);
        UFB_RES[UFB_N] = r;
        UFB_N += 1;
        Rgba(r)
    }
}

pub(crate) fn uf_blend_fn(mode: BlendMode) -> Box<dyn Fn(Color8, Color8, u8) -> Color8> {
    Box::new(move |b, s, o| uf_blend(mode, b, s, o))
}

pub(crate) fn any_px() -> Rgba<u8> {
    Rgba([kani::any(), kani::any(), kani::any(), kani::any()])
}

/// Stub for `TilesetsById::get` in harnesses whose sprite has no tileset: keeps symbolic execution out of
/// hashbrown's probing loops on paths (tilemap cels) that the harness state cannot take.
pub(crate) fn stub_tilesets_get_none<P>(_s: &TilesetsById<P>, _id: u32) -> Option<&Tileset<P>> {
    None
}
/// Stub for `ColorPalette::color` in harnesses without indexed pixels.
pub(crate) fn stub_color_none(_s: &ColorPalette, _i: u32) -> Option<&ColorPaletteEntry> {
    None
}

/// Stub for `AseReader::unzip` (real inflate is not encodable: miniz_oxide's bit reader does not terminate
/// under symbolic execution). Model: the "decompressed" stream is the remaining input bytes unchanged (identity
/// codec) -- arbitrary content, length = what the chunk actually carries, independent of the declared size,
/// exactly the freedom a real deflate stream has.
pub(crate) fn stub_unzip_identity<T: std::io::Read>(this: crate::reader::AseReader<T>, _expected: usize) -> Result<Vec<u8>> {
    this.rest()
}

/// Stub for `Pixels::clone_as_image_rgba` in harnesses that only ever build RGBA pixel containers: the
/// grayscale / indexed conversion paths (decided by C06) are cut off instead of being explored as garbage.
pub(crate) fn stub_clone_rgba_only(p: &crate::pixel::Pixels) -> std::borrow::Cow<Vec<image::Rgba<u8>>> {
    match p {
        crate::pixel::Pixels::Rgba(v) => std::borrow::Cow::Borrowed(v),
        _ => {
            kani::assume(false);
            unreachable!()
        }
    }
}

// ---------------------------------------------------------------------------------------------------------
// Byte-level skeleton builders (Aseprite file spec): concrete framing, symbolic attribute bytes.
pub(crate) fn put16(v: &mut Vec<u8>, x: u16) {
    v.push(x as u8);
    v.push((x >> 8) as u8);
}
pub(crate) fn put32(v: &mut Vec<u8>, x: u32) {
    put16(v, x as u16);
    put16(v, (x >> 16) as u16);
}
static ZEROS: [u8; 128] = [0; 128];
/// n zero bytes (n <= 128) as one slice copy: no loop to unwind
pub(crate) fn put_zeros(v: &mut Vec<u8>, n: usize) {
    v.extend_from_slice(&ZEROS[..n]);
}
/// n symbolic bytes (n <= 16) as one slice copy: no loop to unwind
pub(crate) fn put_any(v: &mut Vec<u8>, n: usize) {
    let a: [u8; 16] = kani::any();
    v.extend_from_slice(&a[..n]);
}
/// length-prefixed string of `n` symbolic ASCII bytes (n concrete)
pub(crate) fn put_any_ascii(v: &mut Vec<u8>, n: usize) {
    put16(v, n as u16);
    for _ in 0..n {
        let c: u8 = kani::any();
        kani::assume(c < 0x80);
        v.push(c);
    }
}
pub(crate) fn rd16(b: &[u8], at: usize) -> u16 {
    (b[at] as u16) | ((b[at + 1] as u16) << 8)
}
pub(crate) fn rd32(b: &[u8], at: usize) -> u32 {
    (rd16(b, at) as u32) | ((rd16(b, at + 2) as u32) << 16)
}
/// chunk = size(4) type(2) payload
pub(crate) fn mk_chunk(ty: u16, payload: &[u8]) -> Vec<u8> {
    let mut v = Vec::with_capacity(payload.len() + 6);
    put32(&mut v, payload.len() as u32 + 6);
    put16(&mut v, ty);
    v.extend_from_slice(payload);
    v
}
/// frame = bytes(4) magic(2) old count(2) duration(2) reserved(2) new count(4) chunks
pub(crate) fn mk_frame(chunks: &[Vec<u8>], duration: u16, old_count: u16, new_count: u32) -> Vec<u8> {
    let mut body = 0usize;
    for c in chunks {
        body += c.len();
    }
    let mut v = Vec::with_capacity(16 + body);
    put32(&mut v, 16 + body as u32);
    put16(&mut v, 0xF1FA);
    put16(&mut v, old_count);
    put16(&mut v, duration);
    put16(&mut v, 0);
    put32(&mut v, new_count);
    for c in chunks {
        v.extend_from_slice(c);
    }
    v
}

// ---------------------------------------------------------------------------------------------------------
// Native replays run WITHOUT stubs (Kani's concrete playback ignores #[kani::stub]). Harnesses that feed the
// identity model of `unzip` therefore wrap their payload into a real (stored-block) zlib stream when they are
// not running under the stub, so that a replayed counterexample exercises the real inflater on the same bytes.
pub(crate) fn stubs_probe() -> bool {
    // native replays are `cargo test` builds (cfg(test)); verification builds are not. The stub attribute on the
    // harnesses (-> stubs_probe_stubbed) says the same thing and is kept for clarity.
    !cfg!(test)
}
pub(crate) fn stubs_probe_stubbed() -> bool {
    true
}
fn adler32(data: &[u8]) -> u32 {
    let (mut a, mut b) = (1u32, 0u32);
    for &d in data {
        a = (a + d as u32) % 65521;
        b = (b + a) % 65521;
    }
    (b << 16) | a
}
/// zlib stream with one stored (uncompressed) deflate block; only ever executed natively
pub(crate) fn zlib_stored(data: &[u8]) -> Vec<u8> {
    let mut v = vec![0x78, 0x01, 0x01];
    let n = data.len() as u16;
    v.push(n as u8);
    v.push((n >> 8) as u8);
    v.push(!n as u8);
    v.push((!n >> 8) as u8);
    v.extend_from_slice(data);
    let ad = adler32(data);
    v.push((ad >> 24) as u8);
    v.push((ad >> 16) as u8);
    v.push((ad >> 8) as u8);
    v.push(ad as u8);
    v
}
/// payload for a "compressed" field: the bytes themselves under the identity stub, a real zlib stream natively.
/// Harnesses using it must carry #[kani::stub(crate::vklib::stubs_probe, crate::vklib::stubs_probe_stubbed)].
pub(crate) fn compressed_payload(data: &[u8]) -> Vec<u8> {
    if !cfg!(test) {
        data.to_vec()
    } else {
        zlib_stored(data)
    }
}

static STUB_ENTRY: std::sync::OnceLock<ColorPaletteEntry> = std::sync::OnceLock::new();
/// Stub for `ColorPalette::color`: every index is present (one shared entry). For harnesses that need palette
/// membership to succeed but do not look at the colour.
pub(crate) fn stub_color_some(_s: &ColorPalette, _i: u32) -> Option<&ColorPaletteEntry> {
    Some(STUB_ENTRY.get_or_init(|| crate::palette::vkl::mk_entry(0, [0, 0, 0, 0])))
}

// ---------------------------------------------------------------------------------------------------------
// One-tileset sprites: `TilesetsById::get` answered from a harness-owned static (id match => that tileset, else
// None), which is exactly what a one-entry map answers, without hashbrown's probing loops.
static mut STATIC_TS: Option<Tileset<crate::pixel::Pixels>> = None;
static mut STATIC_TS_ID: u32 = 0;
pub(crate) fn set_static_tileset(id: u32, ts: Tileset<crate::pixel::Pixels>) {
    unsafe {
        STATIC_TS_ID = id;
        // overwrite without dropping the previous value (None): its drop glue (palette hash map) is not explored
        #[allow(static_mut_refs)]
        core::ptr::write(&mut STATIC_TS, Some(ts));
    }
}
pub(crate) fn stub_tilesets_get_static<P>(_s: &TilesetsById<P>, id: u32) -> Option<&Tileset<P>> {
    unsafe {
        if id == STATIC_TS_ID {
            #[allow(static_mut_refs)]
            let r: Option<&Tileset<crate::pixel::Pixels>> = STATIC_TS.as_ref();
            core::mem::transmute::<Option<&Tileset<crate::pixel::Pixels>>, Option<&Tileset<P>>>(r)
        } else {
            None
        }
    }
}
pub(crate) fn mk_tileset(id: u32, tile_count: u32, tw: u16, th: u16, pixels: Vec<image::Rgba<u8>>) -> Tileset<crate::pixel::Pixels> {
    mk_tileset_flag(id, tile_count, tw, th, pixels, true)
}
pub(crate) fn mk_tileset_flag(id: u32, tile_count: u32, tw: u16, th: u16, pixels: Vec<image::Rgba<u8>>, empty_tile_is_id_zero: bool) -> Tileset<crate::pixel::Pixels> {
    Tileset {
        id,
        empty_tile_is_id_zero,
        tile_count,
        tile_size: crate::tileset::vkl::mk_tile_size(tw, th),
        base_index: 1,
        name: String::new(),
        external_file: None,
        pixels: Some(crate::pixel::Pixels::Rgba(pixels)),
    }
}

// ---------------------------------------------------------------------------------------------------------
// Instrumented readers (C13 / C14). Positions and lengths stay concrete on every path (R10); the *threshold*
// (cut offset / fault offset) is symbolic and only ever compared with the concrete position.
use std::io::{self, Read};

/// delivers at most `max` bytes per call (max = 1: one byte at a time); `interrupt_every` > 0 makes every k-th call
/// fail once with ErrorKind::Interrupted before any byte is delivered
pub(crate) struct ChoppyReader<'a> {
    pub data: &'a [u8],
    pub pos: usize,
    pub max: usize,
    pub calls: usize,
    pub interrupt_every: usize,
}
impl<'a> Read for ChoppyReader<'a> {
    fn read(&mut self, buf: &mut [u8]) -> io::Result<usize> {
        self.calls += 1;
        // interrupt_every = k > 0: the k-th call (only) reports Interrupted before delivering anything
        if self.interrupt_every > 0 && self.calls == self.interrupt_every {
            return Err(io::Error::from(io::ErrorKind::Interrupted));
        }
        let left = self.data.len() - self.pos;
        let mut n = if buf.len() < left { buf.len() } else { left };
        if n > self.max {
            n = self.max;
        }
        buf[..n].copy_from_slice(&self.data[self.pos..self.pos + n]);
        self.pos += n;
        Ok(n)
    }
}

/// delivers at most `max` bytes per call; call number i (0-based, i < 64) reports ErrorKind::Interrupted before
/// delivering anything when bit i of `mask` is set (a transient failure: a later call succeeds).
/// `read_exact` is the documented contract of std's default (retry on Interrupted, UnexpectedEof at end of input)
/// except that the transient error value is not materialised inside the retry loop: under CBMC the drop glue of
/// std::io::Error (tagged pointer -> Box<dyn Error>) makes every query that drops one run out of memory.
pub(crate) struct RetryReader<'a> {
    pub data: &'a [u8],
    pub pos: usize,
    pub max: usize,
    pub calls: usize,
    pub mask: u64,
    pub interrupts: usize,
}
impl<'a> RetryReader<'a> {
    /// one delivery step; None = this call is interrupted (nothing delivered)
    fn step(&mut self, buf: &mut [u8]) -> Option<usize> {
        let i = self.calls;
        self.calls += 1;
        if i < 64 && (self.mask >> i) & 1 == 1 {
            self.interrupts += 1;
            return None;
        }
        let left = self.data.len() - self.pos;
        let mut n = if buf.len() < left { buf.len() } else { left };
        if n > self.max {
            n = self.max;
        }
        buf[..n].copy_from_slice(&self.data[self.pos..self.pos + n]);
        self.pos += n;
        Some(n)
    }
}
impl<'a> Read for RetryReader<'a> {
    fn read(&mut self, buf: &mut [u8]) -> io::Result<usize> {
        match self.step(buf) {
            Some(n) => Ok(n),
            None => Err(io::Error::from(io::ErrorKind::Interrupted)),
        }
    }
    // the retry loop of std's default read_exact; the transient error value is never materialised (decoding its
    // kind is a symbolic branch for CBMC, which would make every later position symbolic)
    fn read_exact(&mut self, mut buf: &mut [u8]) -> io::Result<()> {
        while !buf.is_empty() {
            match self.step(buf) {
                Some(0) => break,
                Some(n) => buf = &mut buf[n..],
                None => {}
            }
        }
        if buf.is_empty() {
            Ok(())
        } else {
            Err(io::Error::from(io::ErrorKind::UnexpectedEof))
        }
    }
}

/// behaves like a slice reader up to byte offset `limit` (symbolic); a read that would cross it either reports end of
/// input (`fault` = None: the file was cut there) or fails with the given error kind (a hard I/O error at that offset)
pub(crate) struct LimitReader<'a> {
    pub data: &'a [u8],
    pub pos: usize,
    pub limit: usize,
    pub fault: Option<io::ErrorKind>,
}
impl<'a> Read for LimitReader<'a> {
    fn read(&mut self, buf: &mut [u8]) -> io::Result<usize> {
        let left = self.data.len() - self.pos;
        let n = if buf.len() < left { buf.len() } else { left };
        // position and buffer are updated unconditionally so that they stay concrete after the (symbolic) decision
        // below; once the limit is crossed the caller stops reading, so this is unobservable
        let start = self.pos;
        buf[..n].copy_from_slice(&self.data[start..start + n]);
        self.pos = start + n;
        if start + n > self.limit {
            return match self.fault {
                None => Ok(0),
                Some(k) => Err(io::Error::from(k)),
            };
        }
        Ok(n)
    }
    // std's default read_exact over this reader, written without its retry loop: that loop decodes the kind of every
    // error value (`is_interrupted`), which CBMC cannot resolve for std::io::Error's tagged pointer, so symbolic
    // execution would also follow the retry branch and every later slice length would become symbolic. Contract kept:
    // Ok iff all requested bytes lie before `limit` and inside the data; otherwise the reader's own error, or
    // UnexpectedEof when the input simply ends.
    fn read_exact(&mut self, buf: &mut [u8]) -> io::Result<()> {
        let left = self.data.len() - self.pos;
        let n = if buf.len() < left { buf.len() } else { left };
        let start = self.pos;
        buf[..n].copy_from_slice(&self.data[start..start + n]);
        self.pos = start + n;
        if start + n > self.limit {
            return match self.fault {
                None => Err(io::Error::from(io::ErrorKind::UnexpectedEof)),
                Some(k) => Err(io::Error::from(k)),
            };
        }
        if n < buf.len() {
            return Err(io::Error::from(io::ErrorKind::UnexpectedEof));
        }
        Ok(())
    }
}

pub(crate) fn any_error_kind() -> io::ErrorKind {
    let k: u8 = kani::any();
    match k % 6 {
        0 => io::ErrorKind::NotFound,
        1 => io::ErrorKind::PermissionDenied,
        2 => io::ErrorKind::ConnectionReset,
        3 => io::ErrorKind::TimedOut,
        4 => io::ErrorKind::BrokenPipe,
        _ => io::ErrorKind::Other,
    }
}

// ---------------------------------------------------------------------------------------------------------
// Side-table model of the palette's hash map (nohash IntMap<u32, ColorPaletteEntry>): hashbrown's insert / probe
// loops (SIMD group scans) make even two insertions cost minutes and gigabytes under CBMC. These stubs replace
// std::collections::HashMap::{insert, get, len} by an association list with the same observable behaviour
// (insert returns the previous value for an existing key, get finds the latest value, len counts distinct keys).
// Rows are tagged with the map they belong to (see SIDE_OWNER), so maps that are alive at the same time stay apart.
// Model restriction (part of the claim): only insert / len / ColorPalette::color are modelled; any other map
// operation (extend, remove, iteration) acts on the real, empty map. A counterexample that depends on one of those
// does not reproduce natively and is then reported as inconclusive, not as a violation.
use std::borrow::Borrow;
use std::collections::HashMap;
use std::hash::{BuildHasher, Hash};

const SIDE_CAP: usize = 8;
static mut SIDE_KEYS: [u32; SIDE_CAP] = [0; SIDE_CAP];
// owner of each row: the capacity() of the map it was inserted into. hm_with_hasher gives every map it creates a
// different (real) capacity, which survives moves of the map value; no real insertion ever happens, so it never changes.
static mut SIDE_OWNER: [usize; SIDE_CAP] = [0; SIDE_CAP];
static mut SIDE_MAPS: usize = 0;
static mut SIDE_VALS: [Option<ColorPaletteEntry>; SIDE_CAP] = [None, None, None, None, None, None, None, None];
static mut SIDE_N: usize = 0;

pub(crate) fn side_table_reset() {
    unsafe {
        SIDE_N = 0;
    }
}
fn owner_of<K, V, S, A: std::alloc::Allocator>(m: &HashMap<K, V, S, A>) -> usize {
    m.capacity()
}

pub(crate) fn hm_insert<K, V, S, A>(_this: &mut HashMap<K, V, S, A>, k: K, v: V) -> Option<V>
where
    K: Eq + Hash,
    S: BuildHasher,
    A: std::alloc::Allocator,
{
    assert!(core::mem::size_of::<K>() == 4 && core::mem::size_of::<V>() == core::mem::size_of::<ColorPaletteEntry>(), "side table models IntMap<u32, ColorPaletteEntry> only");
    unsafe {
        let key: u32 = core::mem::transmute_copy(&k);
        core::mem::forget(k);
        let val: ColorPaletteEntry = core::mem::transmute_copy(&v);
        core::mem::forget(v);
        let owner = owner_of(_this);
        let mut i = 0;
        while i < SIDE_N {
            if SIDE_KEYS[i] == key && SIDE_OWNER[i] == owner {
                #[allow(static_mut_refs)]
                let old = SIDE_VALS[i].replace(val);
                return match old {
                    Some(o) => {
                        let r: V = core::mem::transmute_copy(&o);
                        core::mem::forget(o);
                        Some(r)
                    }
                    None => None,
                };
            }
            i += 1;
        }
        assert!(SIDE_N < SIDE_CAP, "side table capacity");
        SIDE_KEYS[SIDE_N] = key;
        SIDE_OWNER[SIDE_N] = owner;
        SIDE_VALS[SIDE_N] = Some(val);
        SIDE_N += 1;
        None
    }
}

/// `ColorPalette::color` over the side table (std's generic `HashMap::get` cannot be stubbed by Kani 0.68)
pub(crate) fn side_color(_this: &ColorPalette, index: u32) -> Option<&ColorPaletteEntry> {
    unsafe {
        let owner = owner_of(&_this.entries);
        let mut i = 0;
        while i < SIDE_N {
            if SIDE_KEYS[i] == index && SIDE_OWNER[i] == owner {
                #[allow(static_mut_refs)]
                return SIDE_VALS[i].as_ref();
            }
            i += 1;
        }
        None
    }
}

/// `HashMap::with_hasher` (what `IntMap::default()` calls): every map created gets its own real capacity, which
/// identifies its rows in the side table (so two palettes alive at the same time stay apart)
pub(crate) fn hm_with_hasher<K, V, S>(hash_builder: S) -> HashMap<K, V, S> {
    // one arm per map number, each with a CONCRETE capacity: when an earlier map was created on some paths only, the
    // map counter is symbolic, and a capacity computed from it would be an allocation of symbolic size (R10)
    unsafe {
        let n = SIDE_MAPS;
        SIDE_MAPS += 1;
        if n == 0 {
            HashMap::with_capacity_and_hasher(1, hash_builder)
        } else if n == 1 {
            HashMap::with_capacity_and_hasher(4, hash_builder)
        } else if n == 2 {
            HashMap::with_capacity_and_hasher(8, hash_builder)
        } else if n == 3 {
            HashMap::with_capacity_and_hasher(15, hash_builder)
        } else if n == 4 {
            HashMap::with_capacity_and_hasher(29, hash_builder)
        } else {
            assert!(n == 5, "side table: number of maps");
            HashMap::with_capacity_and_hasher(57, hash_builder)
        }
    }
}

pub(crate) fn hm_len<K, V, S, A: std::alloc::Allocator>(_this: &HashMap<K, V, S, A>) -> usize {
    unsafe {
        let owner = owner_of(_this);
        let (mut i, mut n) = (0, 0);
        while i < SIDE_N {
            if SIDE_OWNER[i] == owner {
                n += 1;
            }
            i += 1;
        }
        n
    }
}

// ---------------------------------------------------------------------------------------------------------
// C12: recording replacements for the two std reservation entry points the crate uses with file-declared sizes.
// They record the largest request in bytes and hand back an EMPTY vector (growth on demand is what the real ones
// do too), so symbolic declared sizes never become symbolic allocation sizes (R10).
pub(crate) static mut MAX_RESERVATION: u128 = 0;
pub(crate) fn note_reservation(elems: usize, elem_size: usize) {
    let bytes = elems as u128 * elem_size as u128;
    unsafe {
        if bytes > MAX_RESERVATION {
            MAX_RESERVATION = bytes;
        }
    }
}
pub(crate) fn recording_with_capacity<T>(capacity: usize) -> Vec<T> {
    note_reservation(capacity, core::mem::size_of::<T>());
    Vec::new()
}
pub(crate) static mut C12_INPUT_LEN: usize = 0;
/// non-generic, so that there is one vacuity witness for all instantiations of the recorder
fn reservation_site_reached() {
    kani::cover!(true, "a reservation site is reached");
}
/// C12 recorder that checks the bound at the reservation itself and ends the path there (what follows a declared-size
/// reservation is a read of symbolic length, which symbolic execution cannot carry: R10)
pub(crate) fn checking_with_capacity<T>(capacity: usize) -> Vec<T> {
    let bytes = capacity as u128 * core::mem::size_of::<T>() as u128;
    let bound = reservation_bound(unsafe { C12_INPUT_LEN });
    reservation_site_reached();
    assert!(bytes <= bound, "single reservation <= 64 MiB + 8192 * input bytes");
    kani::assume(false);
    Vec::new()
}
/// like checking_with_capacity, but the path continues with an empty vector when the request is within the bound
/// (for call sites whose capacity does not depend on a declared size on the unchanged tree)
pub(crate) fn checking_with_capacity_nostop<T>(capacity: usize) -> Vec<T> {
    let bytes = capacity as u128 * core::mem::size_of::<T>() as u128;
    let bound = reservation_bound(unsafe { C12_INPUT_LEN });
    if bytes > bound {
        assert!(false, "single reservation <= 64 MiB + 8192 * input bytes");
        kani::assume(false);
    }
    // within the bound: serve the request for real (callers may rely on the capacity); the sizes that reach this
    // point on the unchanged tree are concrete
    let v: Vec<T> = Vec::with_capacity_in(capacity, std::alloc::Global);
    v
}
extern crate alloc as alloc_crate;
/// `vec![elem; n]` (alloc::vec::from_elem): checks the bound; a request above it ends the path as a failure, a request
/// within it is served by the real implementation (from_elem_in). n is concrete on the unchanged tree at the sites
/// these harnesses reach.
pub(crate) fn checking_from_elem<T: Clone>(elem: T, n: usize) -> Vec<T> {
    // the request sizes that occur on the unchanged tree in the harnesses using this stub are served with a CONCRETE
    // size (so nothing of symbolic length is ever allocated, R10); any other request is checked against the bound
    // and ends the path
    const KNOWN: [usize; 8] = [0, 1, 2, 7, 8, 10, 14, 84];
    let mut k = 0;
    while k < 8 {
        if n == KNOWN[k] {
            return alloc_crate::vec::from_elem_in(elem, KNOWN[k], std::alloc::Global);
        }
        k += 1;
    }
    let bytes = n as u128 * core::mem::size_of::<T>() as u128;
    let bound = reservation_bound(unsafe { C12_INPUT_LEN });
    assert!(bytes <= bound, "single zero-filled reservation <= 64 MiB + 8192 * input bytes");
    kani::assume(false);
    Vec::new()
}
// Native replay of the C12 harnesses: the checking stubs above exist only under Kani, so the playback build (cargo test,
// cfg(test)) observes allocation requests with a counting global allocator instead and re-checks the same bound.
#[cfg(test)]
pub(crate) mod native_alloc {
    use std::alloc::{GlobalAlloc, Layout, System};
    use std::sync::atomic::{AtomicUsize, Ordering};
    pub static MAX_REQ: AtomicUsize = AtomicUsize::new(0);
    pub struct Counting;
    unsafe impl GlobalAlloc for Counting {
        unsafe fn alloc(&self, l: Layout) -> *mut u8 {
            MAX_REQ.fetch_max(l.size(), Ordering::Relaxed);
            System.alloc(l)
        }
        unsafe fn dealloc(&self, p: *mut u8, l: Layout) {
            System.dealloc(p, l)
        }
        unsafe fn alloc_zeroed(&self, l: Layout) -> *mut u8 {
            MAX_REQ.fetch_max(l.size(), Ordering::Relaxed);
            System.alloc_zeroed(l)
        }
        unsafe fn realloc(&self, p: *mut u8, l: Layout, n: usize) -> *mut u8 {
            MAX_REQ.fetch_max(n, Ordering::Relaxed);
            System.realloc(p, l, n)
        }
    }
    #[global_allocator]
    static GLOBAL: Counting = Counting;
}
/// native replay only (no-op under Kani): forget the requests seen so far
pub(crate) fn native_reservation_reset() {
    #[cfg(test)]
    native_alloc::MAX_REQ.store(0, std::sync::atomic::Ordering::Relaxed);
}
/// native replay only (no-op under Kani): the largest single allocation request since the reset is within the bound
pub(crate) fn native_reservation_check() {
    #[cfg(test)]
    {
        let m = native_alloc::MAX_REQ.load(std::sync::atomic::Ordering::Relaxed) as u128;
        let bound = reservation_bound(unsafe { C12_INPUT_LEN });
        assert!(m <= bound, "native: largest single allocation request {} B > 64 MiB + 8192 * input bytes = {} B", m, bound);
    }
}
pub(crate) fn max_reservation() -> u128 {
    unsafe { MAX_RESERVATION }
}
/// the property's bound for one reservation: 64 MiB + 8192 bytes per input byte supplied
pub(crate) fn reservation_bound(input_len: usize) -> u128 {
    (64u128 << 20) + 8192u128 * input_len as u128
}

