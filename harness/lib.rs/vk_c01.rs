//! C01 — the decoded structure equals what the file encodes (chunk decoders; every attribute over its full range).
//! Oracle: field offsets / widths / signedness of the Aseprite file specification, written here as from_le decodes of
//! the same symbolic bytes.
use crate::layer::vkl::*;
use crate::pixel::RawPixels;
use crate::vklib::*;
use crate::*;

fn rds16(b: &[u8], at: usize) -> i16 {
    rd16(b, at) as i16
}
fn rds32(b: &[u8], at: usize) -> i32 {
    rd32(b, at) as i32
}

fn layer_decode(ty: u16) {
    let mut buf: [u8; 24] = kani::any();
    buf[2] = ty as u8;
    buf[3] = 0;
    buf[16] = 2; // name: 2 symbolic ASCII bytes
    buf[17] = 0;
    kani::assume(buf[18] < 0x80 && buf[19] < 0x80);
    kani::assume(rd16(&buf, 10) < 19);
    let n = if ty == 2 { 24 } else { 20 };
    let l = match crate::layer::parse_chunk(&buf[..n]) {
        Ok(l) => l,
        Err(e) => {
            core::mem::forget(e);
            assert!(false, "well-formed layer chunk decodes");
            return;
        }
    };
    assert!(l.flags.bits() == (rd16(&buf, 0) as u32 & 0x7f), "layer flags");
    assert!(level_of(&l) == rd16(&buf, 4), "child level");
    assert!(l.blend_mode as u16 == rd16(&buf, 10), "blend mode id");
    assert!(l.opacity == buf[12], "opacity");
    assert!(l.name.len() == 2 && l.name.as_bytes()[0] == buf[18] && l.name.as_bytes()[1] == buf[19], "name");
    match l.layer_type {
        LayerType::Image => assert!(ty == 0),
        LayerType::Group => assert!(ty == 1),
        LayerType::Tilemap(i) => assert!(ty == 2 && i == rd32(&buf, 20), "tileset index"),
    }
    assert!(l.user_data.is_none());
    kani::cover!(l.opacity == 7 && level_of(&l) == 0xffff);
    core::mem::forget(l);
}
#[kani::proof]
#[kani::unwind(6)]
#[kani::stub(alloc::fmt::format, crate::vklib::empty_format)]
fn c01_q_layer_image() {
    layer_decode(0);
}
#[kani::proof]
#[kani::unwind(6)]
#[kani::stub(alloc::fmt::format, crate::vklib::empty_format)]
fn c01_t_layer_group() {
    layer_decode(1);
}
#[kani::proof]
#[kani::unwind(6)]
#[kani::stub(alloc::fmt::format, crate::vklib::empty_format)]
fn c01_q_layer_tilemap() {
    layer_decode(2);
}

/// tags chunk with two tags (names of 1 and 0 bytes): all attributes, file order
#[kani::proof]
#[kani::unwind(6)]
#[kani::stub(alloc::fmt::format, crate::vklib::empty_format)]
fn c01_q_tags_two() {
    // 2 + 8 | tag0: 17 + 2 + 1 | tag1: 17 + 2 + 0
    let mut buf: [u8; 49] = kani::any();
    buf[0] = 2;
    buf[1] = 0;
    buf[27] = 1;
    buf[28] = 0;
    kani::assume(buf[29] < 0x80);
    buf[47] = 0;
    buf[48] = 0;
    kani::assume(buf[14] < 3 && buf[34] < 3);
    let t = match crate::tags::parse_chunk(&buf) {
        Ok(t) => t,
        Err(e) => {
            core::mem::forget(e);
            assert!(false, "well-formed tags chunk decodes");
            return;
        }
    };
    assert!(t.len() == 2, "one Tag per entry");
    let base = [10usize, 30];
    for i in 0..2 {
        let b = base[i];
        assert!(t[i].from_frame() == rd16(&buf, b) as u32, "from frame");
        assert!(t[i].to_frame() == rd16(&buf, b + 2) as u32, "to frame");
        let d = match t[i].animation_direction() {
            AnimationDirection::Forward => 0,
            AnimationDirection::Reverse => 1,
            AnimationDirection::PingPong => 2,
        };
        assert!(d == buf[b + 4], "animation direction");
        let rep = rd16(&buf, b + 5) as u32;
        assert!(t[i].repeat().map(|n| n.get()).unwrap_or(0) == rep, "repeat (0 = none)");
        assert!(t[i].user_data().is_none());
    }
    assert!(t[0].name().len() == 1 && t[0].name().as_bytes()[0] == buf[29] && t[1].name().len() == 0, "names in file order");
    kani::cover!(t[0].to_frame() == 65535 && t[1].from_frame() == 3);
    core::mem::forget(t);
}

fn slice_decode(flags: u8) {
    // 4 keys count, 4 flags, 4 reserved, name(2+1), then keys of 20 (+16) (+8)
    let mut buf: [u8; 103] = kani::any();
    buf[0] = 2;
    buf[1] = 0;
    buf[2] = 0;
    buf[3] = 0;
    buf[4] = flags;
    buf[5] = 0;
    buf[6] = 0;
    buf[7] = 0;
    buf[12] = 1;
    buf[13] = 0;
    kani::assume(buf[14] < 0x80);
    let ksz = 20 + if flags & 1 != 0 { 16 } else { 0 } + if flags & 2 != 0 { 8 } else { 0 };
    let n = 15 + 2 * ksz;
    let s = match crate::slice::parse_chunk(&buf[..n]) {
        Ok(s) => s,
        Err(e) => {
            core::mem::forget(e);
            assert!(false, "well-formed slice chunk decodes");
            return;
        }
    };
    assert!(s.name.len() == 1 && s.name.as_bytes()[0] == buf[14], "slice name");
    assert!(s.keys.len() == 2, "all keys, in file order");
    assert!(s.user_data.is_none());
    for i in 0..2 {
        let b = 15 + i * ksz;
        let k = &s.keys[i];
        assert!(k.from_frame == rd32(&buf, b), "key frame");
        assert!(k.origin.0 == rds32(&buf, b + 4) && k.origin.1 == rds32(&buf, b + 8), "signed origin");
        assert!(k.size.0 == rd32(&buf, b + 12) && k.size.1 == rd32(&buf, b + 16), "size");
        let mut o = b + 20;
        match &k.slice9 {
            None => assert!(flags & 1 == 0),
            Some(n9) => {
                assert!(flags & 1 != 0);
                assert!(n9.center_x == rds32(&buf, o) && n9.center_y == rds32(&buf, o + 4), "9-slice centre");
                assert!(n9.center_width == rd32(&buf, o + 8) && n9.center_height == rd32(&buf, o + 12), "9-slice size");
                o += 16;
            }
        }
        match &k.pivot {
            None => assert!(flags & 2 == 0),
            Some(p) => {
                assert!(flags & 2 != 0);
                assert!(p.0 == rds32(&buf, o) && p.1 == rds32(&buf, o + 4), "pivot");
            }
        }
    }
    kani::cover!(s.keys[1].origin.0 == i32::MIN);
    core::mem::forget(s);
}
#[kani::proof]
#[kani::unwind(6)]
#[kani::stub(alloc::fmt::format, crate::vklib::empty_format)]
fn c01_q_slice_plain() {
    slice_decode(0);
}
#[kani::proof]
#[kani::unwind(6)]
#[kani::stub(alloc::fmt::format, crate::vklib::empty_format)]
fn c01_q_slice_nine_and_pivot() {
    slice_decode(3);
}
#[kani::proof]
#[kani::unwind(6)]
#[kani::stub(alloc::fmt::format, crate::vklib::empty_format)]
fn c01_t_slice_nine_only() {
    slice_decode(1);
}
#[kani::proof]
#[kani::unwind(6)]
#[kani::stub(alloc::fmt::format, crate::vklib::empty_format)]
fn c01_t_slice_pivot_only() {
    slice_decode(2);
}

/// external files chunk with two entries
#[kani::proof]
#[kani::unwind(6)]
#[kani::stub(alloc::fmt::format, crate::vklib::empty_format)]
fn c01_q_external_files_two() {
    // 4 count + 8 | e0: 4 id + 8 + name(2+1) | e1: 4 id + 8 + name(2+0)
    let mut buf: [u8; 41] = kani::any();
    buf[0] = 2;
    buf[1] = 0;
    buf[2] = 0;
    buf[3] = 0;
    buf[24] = 1;
    buf[25] = 0;
    kani::assume(buf[26] < 0x80);
    buf[39] = 0;
    buf[40] = 0;
    let v = match ExternalFile::parse_chunk(&buf) {
        Ok(v) => v,
        Err(e) => {
            core::mem::forget(e);
            assert!(false, "well-formed external files chunk decodes");
            return;
        }
    };
    assert!(v.len() == 2);
    assert!(v[0].id().value() == rd32(&buf, 12) && v[1].id().value() == rd32(&buf, 27), "entry ids in file order");
    assert!(v[0].name().len() == 1 && v[0].name().as_bytes()[0] == buf[26] && v[1].name().len() == 0, "entry names");
    kani::cover!(v[1].id().value() == u32::MAX);
    core::mem::forget(v);
}

fn tileset_decode(flags: u8) {
    let mut buf: [u8; 47] = kani::any();
    buf[4] = flags;
    buf[5] = 0;
    buf[6] = 0;
    buf[7] = 0;
    buf[32] = 1;
    buf[33] = 0;
    kani::assume(buf[34] < 0x80);
    let n = 35 + if flags & 1 != 0 { 8 } else { 0 } + if flags & 2 != 0 { 4 } else { 0 };
    // a loadable tileset has a tile size of at least 1x1 and exactly count*w*h pixels: the embedded variants carry no
    // pixel bytes, so their tile count is 0 (count is symbolic in the linked-only variant)
    kani::assume(rd16(&buf, 12) >= 1 && rd16(&buf, 14) >= 1);
    if flags & 2 != 0 {
        buf[8] = 0;
        buf[9] = 0;
        buf[10] = 0;
        buf[11] = 0;
    }
    let t = match crate::tileset::Tileset::<RawPixels>::parse_chunk(&buf[..n], PixelFormat::Rgba) {
        Ok(t) => t,
        Err(e) => {
            core::mem::forget(e);
            assert!(false, "well-formed tileset chunk decodes");
            return;
        }
    };
    assert!(t.id() == rd32(&buf, 0), "tileset id");
    assert!(t.empty_tile_is_id_zero() == (flags & 4 != 0), "empty-tile flag");
    assert!(t.tile_count() == rd32(&buf, 8), "tile count");
    assert!(t.tile_size().width() == rd16(&buf, 12) && t.tile_size().height() == rd16(&buf, 14), "tile size");
    assert!(t.base_index() == rds16(&buf, 16), "signed base index");
    assert!(t.name().len() == 1 && t.name().as_bytes()[0] == buf[34], "tileset name");
    match t.external_file() {
        None => assert!(flags & 1 == 0),
        Some(r) => {
            assert!(flags & 1 != 0);
            assert!(r.external_file_id().value() == rd32(&buf, 35) && r.tileset_id() == rd32(&buf, 39), "external reference");
        }
    }
    assert!(t.pixels.is_some() == (flags & 2 != 0), "pixels present iff embedded");
    kani::cover!(t.base_index() == -1 && t.tile_size().width() == 65535);
    core::mem::forget(t);
}
#[kani::proof]
#[kani::unwind(8)]
#[kani::stub(alloc::fmt::format, crate::vklib::empty_format)]
#[kani::stub(crate::reader::AseReader::unzip, crate::vklib::stub_unzip_identity)]
fn c01_q_tileset_embedded() {
    tileset_decode(2 | 4);
}
#[kani::proof]
#[kani::unwind(8)]
#[kani::stub(alloc::fmt::format, crate::vklib::empty_format)]
#[kani::stub(crate::reader::AseReader::unzip, crate::vklib::stub_unzip_identity)]
fn c01_q_tileset_embedded_and_linked() {
    tileset_decode(3);
}
#[kani::proof]
#[kani::unwind(8)]
#[kani::stub(alloc::fmt::format, crate::vklib::empty_format)]
#[kani::stub(crate::reader::AseReader::unzip, crate::vklib::stub_unzip_identity)]
fn c01_q_tileset_linked_only() {
    tileset_decode(1);
}
