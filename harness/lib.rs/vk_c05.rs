//! C05 — a sprite that loads is fully usable. This file holds the "validation establishes the renderer's
//! invariants" half: inputs whose declared sizes / references are inconsistent must be REJECTED at load time
//! (otherwise an accessor fails later). The "every accessor returns on a valid sprite" half is the set of C02 / C06 /
//! C08 / C09 harnesses that this property's configuration re-runs (any panic inside an accessor fails them).
use crate::cel::vkl::*;
use crate::cel::*;
use crate::layer::vkl::*;
use crate::layer::*;
use crate::pixel::RawPixels;
use crate::tilemap::vkl::*;
use crate::vklib::*;
use crate::*;

fn cel_header(v: &mut Vec<u8>, cel_type: u16) {
    put16(v, 0);
    put_any(v, 5); // x, y, opacity
    put16(v, cel_type);
    put_zeros(v, 7);
}

/// compressed image cel: Ok => the pixel container holds exactly width*height pixels (declared 2x1, N supplied)
fn compressed_cel(n_supplied: usize) {
    let data: [u8; 12] = kani::any();
    let z = compressed_payload(&data[..4 * n_supplied]);
    let mut v = Vec::with_capacity(40);
    cel_header(&mut v, 2);
    put16(&mut v, 2);
    put16(&mut v, 1);
    v.extend_from_slice(&z);
    let r = crate::cel::parse_chunk(&v, PixelFormat::Rgba);
    match &r {
        Ok(c) => match &c.content {
            CelContent::Raw(ic) => match &ic.pixels {
                RawPixels::Rgba(p) => assert!(p.len() == 2, "a loaded cel has width*height pixels (the rasteriser indexes them)"),
                _ => assert!(false),
            },
            _ => assert!(false),
        },
        Err(_) => assert!(n_supplied != 2, "a consistent compressed cel loads"),
    }
    kani::cover!(true);
    core::mem::forget(r);
    core::mem::forget(v);
}
#[kani::proof]
#[kani::unwind(8)]
#[kani::stub(alloc::fmt::format, crate::vklib::empty_format)]
#[kani::stub(crate::reader::AseReader::unzip, crate::vklib::stub_unzip_identity)]
#[kani::stub(crate::vklib::stubs_probe, crate::vklib::stubs_probe_stubbed)]
fn c05_q_compressed_cel_too_few_pixels() {
    compressed_cel(1);
}
#[kani::proof]
#[kani::unwind(8)]
#[kani::stub(alloc::fmt::format, crate::vklib::empty_format)]
#[kani::stub(crate::reader::AseReader::unzip, crate::vklib::stub_unzip_identity)]
#[kani::stub(crate::vklib::stubs_probe, crate::vklib::stubs_probe_stubbed)]
fn c05_q_compressed_cel_exact() {
    compressed_cel(2);
}

/// tileset: Ok => pixel count == tile_count * tile_width * tile_height and the tile size is at least 1x1
fn tileset_pixels(count: u8, tw: u8, th: u8, n_supplied: usize) {
    let data: [u8; 12] = kani::any();
    let z = compressed_payload(&data[..4 * n_supplied]);
    let mut v = Vec::with_capacity(64);
    put32(&mut v, 3);
    put32(&mut v, 2);
    put32(&mut v, count as u32);
    put16(&mut v, tw as u16);
    put16(&mut v, th as u16);
    put_any(&mut v, 2);
    put_zeros(&mut v, 14);
    put16(&mut v, 0);
    put32(&mut v, z.len() as u32);
    v.extend_from_slice(&z);
    let r = crate::tileset::Tileset::<RawPixels>::parse_chunk(&v, PixelFormat::Rgba);
    if let Ok(t) = &r {
        assert!(t.tile_size().width() >= 1 && t.tile_size().height() >= 1, "a loaded tileset has a tile size of at least 1x1 (tilemap geometry divides by it)");
        match &t.pixels {
            Some(RawPixels::Rgba(p)) => assert!(p.len() == count as usize * tw as usize * th as usize, "a loaded tileset has tile_count*w*h pixels (tile images slice them)"),
            _ => assert!(false),
        }
    }
    kani::cover!(true);
    core::mem::forget(r);
    core::mem::forget(v);
}
#[kani::proof]
#[kani::unwind(8)]
#[kani::stub(alloc::fmt::format, crate::vklib::empty_format)]
#[kani::stub(crate::reader::AseReader::unzip, crate::vklib::stub_unzip_identity)]
#[kani::stub(crate::vklib::stubs_probe, crate::vklib::stubs_probe_stubbed)]
fn c05_q_tileset_too_few_pixels() {
    tileset_pixels(2, 1, 1, 1);
}
#[kani::proof]
#[kani::unwind(8)]
#[kani::stub(alloc::fmt::format, crate::vklib::empty_format)]
#[kani::stub(crate::reader::AseReader::unzip, crate::vklib::stub_unzip_identity)]
#[kani::stub(crate::vklib::stubs_probe, crate::vklib::stubs_probe_stubbed)]
fn c05_q_tileset_zero_tile_width() {
    tileset_pixels(2, 0, 1, 0);
}
#[kani::proof]
#[kani::unwind(8)]
#[kani::stub(alloc::fmt::format, crate::vklib::empty_format)]
#[kani::stub(crate::reader::AseReader::unzip, crate::vklib::stub_unzip_identity)]
#[kani::stub(crate::vklib::stubs_probe, crate::vklib::stubs_probe_stubbed)]
fn c05_t_tileset_zero_tile_height() {
    tileset_pixels(1, 1, 0, 0);
}

/// tilemap cel: Ok => stored tile count == width*height (declared 2x1, N supplied)
fn tilemap_tiles(n_supplied: usize) {
    let data: [u8; 12] = kani::any();
    let z = compressed_payload(&data[..4 * n_supplied]);
    let mut v = Vec::with_capacity(64);
    cel_header(&mut v, 3);
    put16(&mut v, 2);
    put16(&mut v, 1);
    put16(&mut v, 32);
    put_any(&mut v, 16);
    put_zeros(&mut v, 10);
    v.extend_from_slice(&z);
    let r = crate::cel::parse_chunk(&v, PixelFormat::Rgba);
    match &r {
        Ok(c) => match &c.content {
            CelContent::Tilemap(t) => assert!(stored_tiles(t) == 2, "a loaded tilemap has width*height tiles (lookups index them)"),
            _ => assert!(false),
        },
        Err(_) => assert!(n_supplied != 2, "a consistent tilemap cel loads"),
    }
    kani::cover!(true);
    core::mem::forget(r);
    core::mem::forget(v);
}
#[kani::proof]
#[kani::unwind(8)]
#[kani::stub(alloc::fmt::format, crate::vklib::empty_format)]
#[kani::stub(crate::reader::AseReader::unzip, crate::vklib::stub_unzip_identity)]
#[kani::stub(crate::vklib::stubs_probe, crate::vklib::stubs_probe_stubbed)]
fn c05_q_tilemap_too_few_tiles() {
    tilemap_tiles(1);
}
#[kani::proof]
#[kani::unwind(8)]
#[kani::stub(alloc::fmt::format, crate::vklib::empty_format)]
#[kani::stub(crate::reader::AseReader::unzip, crate::vklib::stub_unzip_identity)]
#[kani::stub(crate::vklib::stubs_probe, crate::vklib::stubs_probe_stubbed)]
fn c05_t_tilemap_exact() {
    tilemap_tiles(2);
}

/// tilemap cel validation: a tile id must be below the tileset's tile count (tile images slice by id)
#[kani::proof]
#[kani::unwind(6)]
#[kani::stub(alloc::fmt::format, crate::vklib::empty_format)]
#[kani::stub(std::hash::RandomState::new, crate::vklib::fixed_random_state)]
#[kani::stub(crate::tileset::TilesetsById::get, crate::vklib::stub_tilesets_get_static)]
#[kani::stub(crate::palette::ColorPalette::color, crate::vklib::stub_color_none)]
#[kani::stub(crate::vklib::stubs_probe, crate::vklib::stubs_probe_stubbed)]
fn c05_q_tile_ids_checked_against_tileset() {
    let layers = LayersData::from_vec(vec![mk_layer(1, 0, BlendMode::Normal, 255, LayerType::Tilemap(7))]).unwrap();
    let ids: [u32; 2] = kani::any();
    let count: u32 = kani::any();
    kani::assume(count >= 1);
    // the tileset's "empty tile is id 0" flag is symbolic: whatever it says, every stored id must exist
    let flag: bool = kani::any();
    let mut sets = TilesetsById::new();
    if cfg!(test) {
        sets.add(mk_tileset_flag(7, count, 1, 1, Vec::new(), flag));
    }
    set_static_tileset(7, mk_tileset_flag(7, count, 1, 1, Vec::new(), flag));
    let cel: RawCel<RawPixels> = RawCel {
        data: CelCommon { layer_index: 0, x: 0, y: 0, opacity: 255 },
        content: CelContent::Tilemap(mk_tilemap_data(2, 1, &ids)),
        user_data: None,
    };
    let r = mk_cels(vec![vec![Some(cel)]]).validate(&layers, &sets, &PixelFormat::Rgba, None);
    assert!(r.is_ok() == (ids[0] < count && ids[1] < count), "loads iff every tile id exists in the tileset");
    kani::cover!(ids[0] == 0 && ids[1] == count);
    kani::cover!(!flag && ids[1] == 0x1fff_ffff && count == 5, "old-style tileset, tile id with every id-mask bit set");
    kani::cover!(r.is_ok() && ids[1] == count - 1 && count == 0xffff_ffff);
    core::mem::forget(r);
    core::mem::forget(layers);
}
