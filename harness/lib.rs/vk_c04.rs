//! C04 — loading is total: any byte sequence yields a sprite or an error value (never a panic).
//! Unit-level "returns without panicking" harnesses over arbitrary bytes / arbitrary parsed state. Kani reports any
//! reachable panic, arithmetic overflow (overflow checks on), slice index failure, unwrap/expect failure or
//! division by zero as a failed check. Structure bytes that determine *lengths* (string lengths) are concrete per
//! harness (rule R10); every other byte is symbolic.
use crate::cel::vkl::*;
use crate::cel::*;
use crate::layer::vkl::*;
use crate::layer::*;
use crate::pixel::RawPixels;
use crate::vklib::*;
use crate::*;
use image::Rgba;

fn sym_bytes<const N: usize>() -> [u8; N] {
    kani::any()
}

// ---------------------------------------------------------------------------------------- post-parse stages
/// layers with ARBITRARY child levels (no forest assumption): from_vec must return Ok or Err
fn parents_any<const N: usize>() {
    let levels: [u16; N] = kani::any();
    let mut v = Vec::with_capacity(N);
    for i in 0..N {
        v.push(mk_layer(1, levels[i], BlendMode::Normal, 255, LayerType::Image));
    }
    let r = LayersData::from_vec(v);
    kani::cover!(r.is_ok() && levels[N - 1] == 2);
    kani::cover!(levels[0] == 1, "first layer nested (no possible parent)");
    core::mem::forget(r);
}
#[kani::proof]
#[kani::unwind(6)]
#[kani::stub(alloc::fmt::format, crate::vklib::empty_format)]
fn c04_q_layers_any_levels_n3() {
    parents_any::<3>();
}
#[kani::proof]
#[kani::unwind(8)]
#[kani::stub(alloc::fmt::format, crate::vklib::empty_format)]
fn c04_t_layers_any_levels_n5() {
    parents_any::<5>();
}

fn one_layer() -> LayersData {
    LayersData::from_vec(vec![mk_layer(1, 0, BlendMode::Normal, 255, LayerType::Image)]).unwrap()
}
fn raw_rgba_1px(layer: u16) -> RawCel<RawPixels> {
    RawCel {
        data: CelCommon { layer_index: layer, x: kani::any(), y: kani::any(), opacity: kani::any() },
        content: CelContent::Raw(ImageContent { size: ImageSize { width: 1, height: 1 }, pixels: RawPixels::Rgba(vec![any_px()]) }),
        user_data: None,
    }
}
fn linked(layer: u16, to: u16) -> RawCel<RawPixels> {
    RawCel { data: CelCommon { layer_index: layer, x: 0, y: 0, opacity: 255 }, content: CelContent::Linked(to), user_data: None }
}

/// a cel chunk may name any layer index; validation must reject (not panic on) indices beyond the layer list
#[kani::proof]
#[kani::unwind(5)]
#[kani::stub(alloc::fmt::format, crate::vklib::empty_format)]
#[kani::stub(crate::palette::ColorPalette::color, crate::vklib::stub_color_none)]
#[kani::stub(std::hash::RandomState::new, crate::vklib::fixed_random_state)]
#[kani::stub(crate::tileset::TilesetsById::get, crate::vklib::stub_tilesets_get_none)]
fn c04_q_validate_raw_cel_layer_beyond_layers() {
    let layers = one_layer();
    let cels = mk_cels(vec![vec![Some(raw_rgba_1px(0)), Some(raw_rgba_1px(1))]]);
    let r = cels.validate(&layers, &TilesetsById::new(), &PixelFormat::Rgba, None);
    kani::cover!(true);
    core::mem::forget(r);
    core::mem::forget(layers);
}

/// a linked cel may name any frame; validation must reject (not panic on) frames beyond the frame count
#[kani::proof]
#[kani::unwind(4)]
#[kani::stub(alloc::fmt::format, crate::vklib::empty_format)]
#[kani::stub(crate::palette::ColorPalette::color, crate::vklib::stub_color_none)]
#[kani::stub(std::hash::RandomState::new, crate::vklib::fixed_random_state)]
#[kani::stub(crate::tileset::TilesetsById::get, crate::vklib::stub_tilesets_get_none)]
fn c04_q_validate_linked_cel_any_frame() {
    let layers = one_layer();
    let to: u16 = kani::any();
    let cels = mk_cels(vec![vec![Some(linked(0, to))]]);
    let r = cels.validate(&layers, &TilesetsById::new(), &PixelFormat::Rgba, None);
    assert!(r.is_err(), "a link to itself or to a frame that does not exist is rejected");
    kani::cover!(to == 0);
    kani::cover!(to == 1);
    kani::cover!(to == 65535);
    core::mem::forget(r);
    core::mem::forget(layers);
}

/// linked cel on a layer index beyond the layer list
#[kani::proof]
#[kani::unwind(4)]
#[kani::stub(alloc::fmt::format, crate::vklib::empty_format)]
#[kani::stub(crate::palette::ColorPalette::color, crate::vklib::stub_color_none)]
#[kani::stub(std::hash::RandomState::new, crate::vklib::fixed_random_state)]
#[kani::stub(crate::tileset::TilesetsById::get, crate::vklib::stub_tilesets_get_none)]
fn c04_q_validate_linked_cel_layer_beyond_layers() {
    let layers = one_layer();
    let to: u16 = kani::any();
    let cels = mk_cels(vec![vec![None, Some(linked(1, to))]]);
    let r = cels.validate(&layers, &TilesetsById::new(), &PixelFormat::Rgba, None);
    kani::cover!(to == 0);
    core::mem::forget(r);
    core::mem::forget(layers);
}

/// add_cel with a frame id at / beyond the frame count and a duplicate never panics
#[kani::proof]
#[kani::unwind(6)]
#[kani::stub(alloc::fmt::format, crate::vklib::empty_format)]
fn c04_q_add_cel_frame_range() {
    const FRAMES: [u16; 4] = [0, 1, 2, 65535];
    for k in 0..4 {
        let f = FRAMES[k];
        let mut cels: CelsData<RawPixels> = CelsData::new(2);
        let r1 = cels.add_cel(f, linked(2, kani::any()));
        let r2 = cels.add_cel(f, linked(2, kani::any()));
        assert!(r1.is_ok() == (f < 2), "frame id is range-checked");
        assert!(r2.is_err(), "duplicate cel (or bad frame) is an error, not a panic");
        core::mem::forget(cels);
        core::mem::forget(r1);
        core::mem::forget(r2);
    }
    kani::cover!(true);
}

// ---------------------------------------------------------------------------------------- chunk decoders, arbitrary bytes
macro_rules! total {
    ($name:ident, $unw:expr, $n:expr, $fixed:expr, $call:expr) => {
        #[kani::proof]
        #[kani::unwind($unw)]
        #[kani::stub(alloc::fmt::format, crate::vklib::empty_format)]
        #[kani::stub(crate::reader::AseReader::unzip, crate::vklib::stub_unzip_identity)]
        #[kani::stub(std::hash::RandomState::new, crate::vklib::fixed_random_state)]
        #[kani::stub(std::collections::HashMap::insert, crate::vklib::hm_insert)]
        #[kani::stub(std::collections::HashMap::with_hasher, crate::vklib::hm_with_hasher)]
#[kani::stub(std::collections::HashMap::with_hasher, crate::vklib::hm_with_hasher)]
        #[kani::stub(std::collections::HashMap::len, crate::vklib::hm_len)]
        fn $name() {
            let mut buf: [u8; $n] = sym_bytes();
            let fixed: &[(usize, u8)] = &$fixed;
            for &(i, v) in fixed {
                buf[i] = v;
            }
            let f = $call;
            let ok = f(&buf);
            kani::cover!(ok, "decoder can succeed on this skeleton");
            kani::cover!(!ok, "decoder can fail on this skeleton");
        }
    };
}

// layer chunk: 16 fixed bytes, name (len concrete 1), optional tileset index
total!(c04_q_layer_chunk_23, 8, 23, [(16, 1), (17, 0)], |b: &[u8]| {
    let r = crate::layer::parse_chunk(b);
    let ok = r.is_ok();
    core::mem::forget(r);
    ok
});
total!(c04_t_layer_chunk_19_short, 8, 19, [(16, 1), (17, 0)], |b: &[u8]| {
    let r = crate::layer::parse_chunk(b);
    let ok = r.is_ok();
    core::mem::forget(r);
    ok
});
// cel chunk header (16 bytes) + type-specific part; raw cel 1x1 RGBA needs 16+4+4
total!(c04_q_cel_chunk_24_rgba, 8, 24, [(16, 1), (17, 0), (18, 1), (19, 0)], |b: &[u8]| {
    // declared size concrete 1x1 (R10; inflated declared sizes are C12's subject), cel type and all attributes symbolic
    let r = crate::cel::parse_chunk(b, PixelFormat::Rgba);
    let ok = r.is_ok();
    core::mem::forget(r);
    ok
});
total!(c04_t_cel_chunk_22_gray, 8, 22, [(16, 1), (17, 0), (18, 1), (19, 0)], |b: &[u8]| {
    let r = crate::cel::parse_chunk(b, PixelFormat::Grayscale);
    let ok = r.is_ok();
    core::mem::forget(r);
    ok
});
total!(c04_t_cel_chunk_21_indexed, 8, 21, [(16, 1), (17, 0), (18, 1), (19, 0)], |b: &[u8]| {
    let r = crate::cel::parse_chunk(b, PixelFormat::Indexed { transparent_color_index: 0 });
    let ok = r.is_ok();
    core::mem::forget(r);
    ok
});
// tilemap cel: 16 + 2+2+2 + 16 + 10 + tiles (1 tile = 4 bytes)
total!(c04_t_cel_chunk_52_tilemap, 9, 52, [(9, 3), (10, 0), (16, 1), (17, 0), (18, 1), (19, 0)], |b: &[u8]| {
    let r = crate::cel::parse_chunk(b, PixelFormat::Rgba);
    let ok = r.is_ok();
    core::mem::forget(r);
    ok
});
// tileset chunk: 4+4+4+2+2+2+14 = 32, name len (2) concrete 0, then ext ref (8) if flag 1, compressed len (4) if flag 2.
// The two flag bits that decide how many bytes are consumed are concrete per harness (a symbolic flag makes the
// read position, hence a slice length, symbolic: R10); id, tile count, tile width, tile height, base index and the
// remaining 30 flag bits are symbolic over their full range.
macro_rules! tileset_total {
    ($name:ident, $n:expr, $flags:expr) => {
        #[kani::proof]
        #[kani::unwind(8)]
        #[kani::stub(alloc::fmt::format, crate::vklib::empty_format)]
        #[kani::stub(crate::reader::AseReader::unzip, crate::vklib::stub_unzip_identity)]
        fn $name() {
            let mut buf: [u8; $n] = sym_bytes();
            buf[4] = $flags; // the flag word is concrete: a partly symbolic word does not constant-fold in symex
            buf[5] = 0;
            buf[6] = 0;
            buf[7] = 0;
            buf[32] = 0;
            buf[33] = 0;
            let r = crate::tileset::Tileset::<RawPixels>::parse_chunk(&buf, PixelFormat::Rgba);
            kani::cover!(r.is_ok());
            core::mem::forget(r);
        }
    };
}
tileset_total!(c04_q_tileset_chunk_embedded, 38, 2);
tileset_total!(c04_t_tileset_chunk_embedded_and_linked, 46, 3);
tileset_total!(c04_t_tileset_chunk_linked_only, 42, 1);
tileset_total!(c04_t_tileset_chunk_no_pixels, 34, 0);
/// new palette chunk header only (20 bytes): first/last fully symbolic, no entry data follows
#[kani::proof]
#[kani::unwind(4)]
#[kani::stub(alloc::fmt::format, crate::vklib::empty_format)]
#[kani::stub(std::hash::RandomState::new, crate::vklib::fixed_random_state)]
fn c04_q_palette_chunk_header_20() {
    let buf: [u8; 20] = sym_bytes();
    let r = crate::palette::parse_chunk(&buf);
    assert!(r.is_err(), "a palette chunk without entry data is an error value");
    let first = u32::from_le_bytes([buf[4], buf[5], buf[6], buf[7]]);
    let last = u32::from_le_bytes([buf[8], buf[9], buf[10], buf[11]]);
    kani::cover!(first == 0 && last == u32::MAX, "index range covering all of u32");
    kani::cover!(last < first);
    core::mem::forget(r);
}
// new palette chunk with one entry (first index concrete: hash-map keys stay concrete), name length concrete 1
total!(c04_t_palette_chunk_one_entry, 12, 29, [(4, 3), (5, 0), (6, 0), (7, 0), (8, 3), (9, 0), (10, 0), (11, 0), (26, 1), (27, 0)], |b: &[u8]| {
    let r = crate::palette::parse_chunk(b);
    let ok = r.is_ok();
    core::mem::forget(r);
    ok
});
// tags chunk: 2 + 8, one tag = 2+2+1+2+6+4 + name(2+len); count symbolic, name len concrete 0
total!(c04_q_tags_chunk_29, 6, 29, [(27, 0), (28, 0)], |b: &[u8]| {
    let r = crate::tags::parse_chunk(b);
    let ok = r.is_ok();
    core::mem::forget(r);
    ok
});
// slice chunk: 4+4+4 + name(2, len 0) + one key 20 (+16 9-slice) (+8 pivot): key count and flags symbolic
total!(c04_q_slice_chunk_50, 9, 50, [(0, 1), (1, 0), (2, 0), (3, 0), (12, 0), (13, 0)], |b: &[u8]| {
    let r = crate::slice::parse_chunk(b);
    let ok = r.is_ok();
    core::mem::forget(r);
    ok
});
// user data: flags symbolic, text len concrete 1
total!(c04_q_userdata_chunk_11, 6, 11, [(4, 1), (5, 0)], |b: &[u8]| {
    let r = crate::user_data::parse_userdata_chunk(b);
    let ok = r.is_ok();
    core::mem::forget(r);
    ok
});
// colour profile
total!(c04_q_color_profile_chunk_16, 4, 16, [], |b: &[u8]| {
    let r = crate::color_profile::parse_chunk(b);
    let ok = r.is_ok();
    core::mem::forget(r);
    ok
});
// external files: count assumed small through the 4 count bytes' upper three being zero is NOT done: count is
// symbolic; only one entry's bytes follow (4+8+2, name len 0)
total!(c04_t_external_files_chunk_26, 8, 26, [(1, 0), (2, 0), (3, 0), (24, 0), (25, 0)], |b: &[u8]| {
    // count byte 0 symbolic (0..=255): the capacity reservation itself is C12's subject
    let r = crate::external_file::ExternalFile::parse_chunk(b);
    let ok = r.is_ok();
    core::mem::forget(r);
    ok
});
