//! C12 (partial) — memory reserved while loading is bounded by the bytes actually supplied: no single reservation
//! computed from a DECLARED size or count exceeds 64 MiB + 8192 bytes per input byte. Vec::with_capacity is replaced
//! by a recording stub (vklib::recording_with_capacity); the declared fields are symbolic over their full range.
//! Not decided here: the SUM of live allocations, vec![0; n] / resize sites (see DESIGN), deflate bombs.
use crate::pixel::RawPixels;
use crate::vklib::*;
use crate::*;

fn input_len(n: usize) {
    unsafe {
        crate::vklib::C12_INPUT_LEN = n;
    }
    native_reservation_reset();
}

/// image cel, raw (type 0) or compressed (type 2), declared width x height over all of u16 x u16
fn cel_declared_size(cel_type: u8, fmt: PixelFormat) {
    let mut buf: [u8; 24] = kani::any();
    buf[7] = cel_type;
    buf[8] = 0;
    input_len(24);
    let r = crate::cel::parse_chunk(&buf, fmt);
    native_reservation_check();
    core::mem::forget(r);
}
#[kani::proof]
#[kani::unwind(6)]
#[kani::stub(alloc::fmt::format, crate::vklib::empty_format)]
#[kani::stub(std::vec::Vec::with_capacity, crate::vklib::checking_with_capacity)]
fn c12_q_raw_cel_declared_size() {
    cel_declared_size(0, PixelFormat::Rgba);
}
/// external files chunk: entry count over all of u32
#[kani::proof]
#[kani::unwind(4)]
#[kani::stub(alloc::fmt::format, crate::vklib::empty_format)]
#[kani::stub(std::vec::Vec::with_capacity, crate::vklib::checking_with_capacity)]
fn c12_q_external_files_declared_count() {
    let buf: [u8; 12] = kani::any();
    input_len(12);
    let r = ExternalFile::parse_chunk(&buf);
    native_reservation_check();
    core::mem::forget(r);
}
/// tags chunk: tag count over all of u16
#[kani::proof]
#[kani::unwind(4)]
#[kani::stub(alloc::fmt::format, crate::vklib::empty_format)]
#[kani::stub(std::vec::Vec::with_capacity, crate::vklib::checking_with_capacity)]
fn c12_q_tags_declared_count() {
    let buf: [u8; 10] = kani::any();
    input_len(10);
    let r = crate::tags::parse_chunk(&buf);
    native_reservation_check();
    core::mem::forget(r);
}


/// tileset chunk: declared compressed length, tile count and tile size over their full ranges; `vec![0; n]` is replaced by
/// a checking stub (the inflater itself is the identity model, so a reservation inside the real unzip is not observed)
#[kani::proof]
#[kani::unwind(10)]
#[kani::stub(alloc::fmt::format, crate::vklib::empty_format)]
#[kani::stub(alloc::vec::from_elem, crate::vklib::checking_from_elem)]
#[kani::stub(crate::reader::AseReader::unzip, crate::vklib::stub_unzip_identity)]
fn c12_q_tileset_declared_sizes() {
    let mut buf: [u8; 38] = kani::any();
    buf[4] = 2;
    buf[5] = 0;
    buf[6] = 0;
    buf[7] = 0;
    buf[32] = 0;
    buf[33] = 0;
    input_len(38);
    let r = crate::tileset::Tileset::<RawPixels>::parse_chunk(&buf, PixelFormat::Rgba);
    kani::cover!(rd32(&buf, 34) == 0x4000_0000, "inflated compressed-length field");
    native_reservation_check();
    core::mem::forget(r);
}

/// tileset chunk whose compressed-length field is inflated to a concrete boundary value (type maximum; just above the
/// 64 MiB allowance), tile count and tile size symbolic: no zero-filled reservation of that size. (With the symbolic
/// field of c12_q_tileset_declared_sizes a reservation sized by it forks the checking stub once per served size and
/// the query runs out of memory; concrete boundary values are what the property's quantifier names.)
fn tileset_compressed_length(v: u32) {
    let mut buf: [u8; 38] = kani::any();
    buf[4] = 2;
    buf[5] = 0;
    buf[6] = 0;
    buf[7] = 0;
    buf[32] = 0;
    buf[33] = 0;
    buf[34] = v as u8;
    buf[35] = (v >> 8) as u8;
    buf[36] = (v >> 16) as u8;
    buf[37] = (v >> 24) as u8;
    input_len(38);
    let r = crate::tileset::Tileset::<RawPixels>::parse_chunk(&buf, PixelFormat::Rgba);
    kani::cover!(rd32(&buf, 34) == v, "inflated compressed-length field");
    native_reservation_check();
    core::mem::forget(r);
}
#[kani::proof]
#[kani::unwind(10)]
#[kani::stub(alloc::fmt::format, crate::vklib::empty_format)]
#[kani::stub(alloc::vec::from_elem, crate::vklib::checking_from_elem)]
#[kani::stub(crate::reader::AseReader::unzip, crate::vklib::stub_unzip_identity)]
fn c12_q_tileset_compressed_length_max() {
    tileset_compressed_length(0xFFFF_FFFF);
}
#[kani::proof]
#[kani::unwind(10)]
#[kani::stub(alloc::fmt::format, crate::vklib::empty_format)]
#[kani::stub(alloc::vec::from_elem, crate::vklib::checking_from_elem)]
#[kani::stub(crate::reader::AseReader::unzip, crate::vklib::stub_unzip_identity)]
fn c12_t_tileset_compressed_length_just_above_allowance() {
    tileset_compressed_length((64 << 20) + 8192 * 38 + 1);
}

/// tilemap cel (type 3, 32 bits per tile), declared width x height over all of u16 x u16 in a 52-byte chunk
#[kani::proof]
#[kani::unwind(12)]
#[kani::stub(alloc::fmt::format, crate::vklib::empty_format)]
#[kani::stub(std::vec::Vec::with_capacity, crate::vklib::checking_with_capacity_nostop)]
#[kani::stub(crate::reader::AseReader::unzip, crate::vklib::stub_unzip_identity)]
fn c12_q_tilemap_cel_declared_size() {
    let mut buf: [u8; 52] = kani::any();
    buf[7] = 3;
    buf[8] = 0;
    buf[20] = 32;
    buf[21] = 0;
    input_len(52);
    let r = crate::cel::parse_chunk(&buf, PixelFormat::Rgba);
    kani::cover!(rd16(&buf, 16) == 0xffff && rd16(&buf, 18) == 0xffff, "declared 65535 x 65535 tiles");
    native_reservation_check();
    core::mem::forget(r);
}
