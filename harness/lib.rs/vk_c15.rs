//! C15 — documented-unsupported features are refused, not silently ignored.
//! One harness per feature; the deciding field is symbolic over its whole encodable range; asserts Ok <=> supported.
use crate::pixel::RawPixels;
use crate::vklib::*;
use crate::*;

fn ok_and_forget<T>(r: Result<T>) -> bool {
    let ok = r.is_ok();
    core::mem::forget(r);
    ok
}

/// colour profile chunk: type and flags over all of u16 x u16; only None/sRGB without the fixed-gamma flag load
#[kani::proof]
#[kani::unwind(4)]
#[kani::stub(alloc::fmt::format, crate::vklib::empty_format)]
fn c15_q_color_profile_type_and_gamma() {
    let buf: [u8; 16] = kani::any();
    let ty = rd16(&buf, 0);
    let flags = rd16(&buf, 2);
    let ok = ok_and_forget(crate::color_profile::parse_chunk(&buf));
    assert!(ok == ((ty == 0 || ty == 1) && flags & 1 == 0), "ICC profile, unknown type or fixed gamma is refused");
    kani::cover!(ty == 2 && flags == 0);
    kani::cover!(ty == 1 && flags == 1);
    kani::cover!(ok);
}

/// layer chunk: layer type and blend mode id over all of u16; only types 0,1,2 and modes 0..=18 load
#[kani::proof]
#[kani::unwind(6)]
#[kani::stub(alloc::fmt::format, crate::vklib::empty_format)]
fn c15_q_layer_type_and_blend_mode() {
    let mut buf: [u8; 23] = kani::any();
    buf[16] = 1; // name length 1
    buf[17] = 0;
    kani::assume(buf[18] < 0x80);
    let ty = rd16(&buf, 2);
    let mode = rd16(&buf, 10);
    let ok = ok_and_forget(crate::layer::parse_chunk(&buf));
    assert!(ok == (ty <= 2 && mode <= 18), "unknown layer type or blend mode is refused");
    kani::cover!(ty == 3);
    kani::cover!(ty == 2 && mode == 18 && ok);
    kani::cover!(mode == 19 && ty == 0);
}

/// cel chunk: cel type over all of u16; only 0..=3 can load (1x1 RGBA skeleton)
#[kani::proof]
#[kani::unwind(8)]
#[kani::stub(alloc::fmt::format, crate::vklib::empty_format)]
#[kani::stub(crate::reader::AseReader::unzip, crate::vklib::stub_unzip_identity)]
fn c15_q_cel_type() {
    let mut buf: [u8; 24] = kani::any();
    buf[16] = 1;
    buf[17] = 0;
    buf[18] = 1;
    buf[19] = 0;
    let ty = rd16(&buf, 7);
    let ok = ok_and_forget(crate::cel::parse_chunk(&buf, PixelFormat::Rgba));
    if ty > 3 {
        assert!(!ok, "unknown cel type is refused");
    }
    if ty <= 2 {
        assert!(ok, "raw / linked / compressed 1x1 cel loads");
    }
    kani::cover!(ty == 4);
    kani::cover!(ty == 0xffff);
    kani::cover!(ty == 2 && ok);
}

/// tilemap cel: bits per tile over all of u16; only 32 loads
#[kani::proof]
#[kani::unwind(8)]
#[kani::stub(alloc::fmt::format, crate::vklib::empty_format)]
#[kani::stub(crate::reader::AseReader::unzip, crate::vklib::stub_unzip_identity)]
fn c15_q_tilemap_bits_per_tile() {
    let mut buf: [u8; 52] = kani::any();
    buf[7] = 3; // cel type 3
    buf[8] = 0;
    buf[16] = 1; // 1x1 tiles
    buf[17] = 0;
    buf[18] = 1;
    buf[19] = 0;
    let bits = rd16(&buf, 20);
    let ok = ok_and_forget(crate::cel::parse_chunk(&buf, PixelFormat::Rgba));
    assert!(ok == (bits == 32), "tilemaps with other than 32 bits per tile are refused");
    kani::cover!(bits == 16);
    kani::cover!(ok);
}

/// tags chunk: animation direction over all of u8; only 0,1,2 load
#[kani::proof]
#[kani::unwind(6)]
#[kani::stub(alloc::fmt::format, crate::vklib::empty_format)]
fn c15_q_animation_direction() {
    let mut buf: [u8; 29] = kani::any();
    buf[0] = 1; // one tag
    buf[1] = 0;
    buf[27] = 0; // name length 0
    buf[28] = 0;
    let dir = buf[14];
    let ok = ok_and_forget(crate::tags::parse_chunk(&buf));
    assert!(ok == (dir <= 2), "unknown animation direction is refused");
    kani::cover!(dir == 3);
    kani::cover!(dir == 2 && ok);
}

