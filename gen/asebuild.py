#!/usr/bin/env python3
"""Minimal Aseprite file builder (spec: docs/ase-file-specs.md) for demonstrations and replays."""
import struct, zlib

def header(nframes, w, h, depth=32, tci=0, file_size=0, pw=1, ph=1, speed=100):
    b = struct.pack("<IHHHHHIHIIBBHHBBhhHH", file_size, 0xA5E0, nframes, w, h, depth, 1, speed, 0, 0, tci, 0, 0, 0, pw, ph, 0, 0, 16, 16)
    return b + bytes(128 - len(b))

def chunk(ctype, payload):
    return struct.pack("<IH", len(payload) + 6, ctype) + payload

def frame(chunks, duration=100, old_count=None, new_count=None):
    body = b"".join(chunks)
    n = len(chunks)
    oc = n if old_count is None else old_count
    nc = n if new_count is None else new_count
    return struct.pack("<IHHHHI", 16 + len(body), 0xF1FA, oc, duration, 0, nc) + body

def string(s):
    e = s.encode("utf-8")
    return struct.pack("<H", len(e)) + e

def layer(flags=1, ltype=0, level=0, blend=0, opacity=255, name="L", tileset=None):
    p = struct.pack("<HHHHHHBBH", flags, ltype, level, 0, 0, blend, opacity, 0, 0) + string(name)
    if ltype == 2:
        p += struct.pack("<I", tileset or 0)
    return chunk(0x2004, p)

def cel_raw(layer_index, x, y, w, h, pixels, opacity=255):
    return chunk(0x2005, struct.pack("<HhhBH7x", layer_index, x, y, opacity, 0) + struct.pack("<HH", w, h) + pixels)

def cel_zlib(layer_index, x, y, w, h, pixels, opacity=255):
    return chunk(0x2005, struct.pack("<HhhBH7x", layer_index, x, y, opacity, 2) + struct.pack("<HH", w, h) + zlib.compress(pixels))

def cel_linked(layer_index, to_frame, x=0, y=0, opacity=255):
    return chunk(0x2005, struct.pack("<HhhBH7x", layer_index, x, y, opacity, 1) + struct.pack("<H", to_frame))

def cel_tilemap(layer_index, x, y, w, h, tiles, opacity=255, bits=32):
    body = struct.pack("<HHH", w, h, bits) + struct.pack("<IIII", 0x1fffffff, 0x20000000, 0x40000000, 0x80000000) + bytes(10)
    return chunk(0x2005, struct.pack("<HhhBH7x", layer_index, x, y, opacity, 3) + body + zlib.compress(b"".join(struct.pack("<I", t) for t in tiles)))

def tileset(tid, count, tw, th, pixels, flags=2, name="T", base=1):
    p = struct.pack("<IIIHHh14x", tid, flags, count, tw, th, base) + string(name)
    if flags & 1:
        p += struct.pack("<II", 0, 0)
    if flags & 2:
        z = zlib.compress(pixels)
        p += struct.pack("<I", len(z)) + z
    return chunk(0x2023, p)

def palette(first, last, entries):
    p = struct.pack("<III8x", last - first + 1 if last >= first else 0, first, last)
    for (r, g, b, a) in entries:
        p += struct.pack("<HBBBB", 0, r, g, b, a)
    return chunk(0x2019, p)

def build(nframes, w, h, frames, **kw):
    body = b"".join(frames)
    return header(nframes, w, h, file_size=128 + len(body), **kw) + body
